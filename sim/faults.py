"""Fault library for the document channel (C06): tree-level, byte-level and a fixed corpus of
non-document payloads.  Every fault is an explicit JSON descriptor so that fault lists can be
enumerated, sampled by seed, minimised and replayed."""
from __future__ import annotations

import copy
import json
import random
import re
from typing import Any

# ---------------------------------------------------------------------- tree faults
JUNK: list[tuple[str, Any]] = [
    ("null", None),
    ("true", True),
    ("zero", 0),
    ("neg", -1),
    ("huge", 1e308),
    ("empty-str", ""),
    ("x", "x"),
    ("empty-list", []),
    ("empty-dict", {}),
    ("list-null", [None]),
    ("ref-dangling", {"$ref": "#/components/schemas/Nope"}),
    ("ref-remote", {"$ref": "other.yaml#/X"}),
    ("ref-root", {"$ref": "#"}),
    ("ref-int", {"$ref": 5}),
    ("ref-empty", {"$ref": ""}),
    ("ref-wrong-section", {"$ref": "#/components/responses/Nope"}),
    ("ref-bad-url", {"$ref": "//["}),                      # urlparse raises ValueError('Invalid IPv6 URL')
    ("ref-bad-ipv6", {"$ref": "http://[::1/x.yaml#/A"}),
    ("ref-percent", {"$ref": "#/components/schemas/%zz"}),
    ("ref-space", {"$ref": "#/components/schemas/A B"}),
    ("ref-nul", {"$ref": "#/components/schemas/\u0000"}),
    ("ref-tilde", {"$ref": "#/components/schemas/~2x"}),
    ("nested-list", [[["x"]]]),
    ("str-number", "12"),
    ("float", 1.5),
]
DYN_JUNK = ["ref-ancestor", "copy-parent", "ref-self-component", "wrong-type"]
# near misses of a string leaf, derived from the value that is there ("3.0.3" -> "3", "3.0.", "3.0.3.", ...)
STR_DYN_JUNK = ["str-first-char", "str-drop-last", "str-append-dot", "str-first-segment", "str-upper", "str-long-10k"]

SCHEMA_JUNK: list[tuple[str, Any]] = [
    ("bool-true", True),    # boolean schemas are legal JSON Schema (3.1): `items: true`, `additionalProperties: false`, ...
    ("bool-false", False),
    ("int-one", 1),         # ... and junk that a lenient validator coerces to a boolean
    ("str-yes", "yes"),
    ("array-no-items", {"type": "array"}),
    ("string-with-properties", {"type": "string", "properties": {"a": {"type": "integer"}}}),
    ("enum-mixed", {"enum": ["a", 1]}),
    ("enum-float", {"enum": [1.5, 2.5]}),
    ("enum-dup-names", {"type": "string", "enum": ["a", "A"]}),
    ("enum-dup-values", {"type": "string", "enum": ["a", "a"]}),
    ("enum-only-null", {"enum": [None]}),
    ("enum-bool", {"enum": [True, False]}),
    ("enum-nested", {"enum": [["a"], {"b": 1}]}),
    ("const-and-enum", {"const": "x", "enum": ["y"]}),
    ("const-bad-default", {"const": "x", "default": "y"}),
    ("bad-default-int", {"type": "integer", "default": "abc"}),
    ("default-int-inf-string", {"type": "integer", "default": "inf"}),
    ("default-int-nan-string", {"type": "integer", "default": "nan"}),
    ("default-int-huge-exp", {"type": "integer", "default": "1e999"}),
    ("default-int-huge-float", {"type": "integer", "default": 1e308}),
    ("default-number-inf-string", {"type": "number", "default": "-inf"}),
    ("default-bool-int", {"type": "boolean", "default": 1}),
    ("default-string-nested", {"type": "string", "default": {"a": [1]}}),
    ("default-enum-unhashable", {"type": "string", "enum": ["a", "b"], "default": ["a"]}),
    ("default-enum-dict", {"type": "integer", "enum": [1, 2], "default": {"k": 1}}),
    ("default-uuid-int", {"type": "string", "format": "uuid", "default": 5}),
    ("default-const-unhashable", {"const": "x", "default": ["x"]}),
    ("bad-default-date", {"type": "string", "format": "date", "default": "not-a-date"}),
    ("bad-default-dt", {"type": "string", "format": "date-time", "default": 3}),
    ("bad-default-uuid", {"type": "string", "format": "uuid", "default": "zz"}),
    ("bad-default-bool", {"type": "boolean", "default": "maybe"}),
    ("bad-default-enum", {"type": "string", "enum": ["a", "b"], "default": "c"}),
    ("default-on-object", {"type": "object", "properties": {"a": {"type": "string"}}, "default": {"a": 1}}),
    ("default-on-array", {"type": "array", "items": {"type": "string"}, "default": ["a"]}),
    ("type-list-empty", {"type": []}),
    ("type-list-all", {"type": ["string", "integer", "number", "boolean", "array", "object", "null"]}),
    ("type-unknown", {"type": "strng"}),
    ("allof-nonobject", {"allOf": [{"type": "string"}, {"type": "integer"}]}),
    ("allof-conflict", {"allOf": [{"type": "object", "properties": {"p": {"type": "string"}}}, {"type": "object", "properties": {"p": {"type": "integer"}}}]}),
    ("allof-empty", {"allOf": []}),
    ("oneof-empty", {"oneOf": []}),
    ("anyof-one-bad", {"anyOf": [{"type": "string"}, {"type": "array"}]}),
    ("oneof-dangling", {"oneOf": [{"$ref": "#/components/schemas/Nope"}, {"type": "string"}]}),
    ("items-list", {"type": "array", "items": [{"type": "string"}]}),
    ("properties-list", {"type": "object", "properties": ["a"]}),
    ("required-unknown", {"type": "object", "properties": {"a": {"type": "string"}}, "required": ["zz"]}),
    ("required-string", {"type": "object", "required": "a"}),
    ("addl-bad", {"type": "object", "additionalProperties": {"type": "array"}}),
    ("addl-string", {"type": "object", "additionalProperties": "yes"}),
    ("prop-names-collide", {"type": "object", "properties": {"a_b": {"type": "string"}, "aB": {"type": "string"}, "a-b": {"type": "integer"}}}),
    ("prop-name-weird", {"type": "object", "properties": {"": {"type": "string"}, "1": {"type": "string"}, "class": {"type": "string"}, "a\"b": {"type": "string"}}}),
    ("nullable-allof", {"nullable": True, "allOf": [{"$ref": "#/components/schemas/Nope"}]}),
    ("prefix-items-only-bad", {"type": "array", "prefixItems": [{"type": "array"}]}),
    ("format-unknown", {"type": "string", "format": "wibble"}),
    ("title-weird", {"type": "object", "title": "1 2 3", "properties": {"a": {"type": "string"}}}),
    ("title-empty", {"type": "object", "title": "", "properties": {"a": {"type": "string"}}}),
    ("deep-nesting", {"type": "array", "items": {"type": "array", "items": {"type": "array", "items": {"type": "array", "items": {"type": "object", "properties": {"a": {"type": "array", "items": {"enum": ["q"]}}}}}}}}),
    # finite but DEEP nesting (a valid document up to the depth the interpreter's stack allows): placeholders that
    # dumps() expands textually, so that the harness itself never recurses over them
    ("deep-arrays-40", "@@VERIF-DEEP:arrays:40@@"),
    ("deep-arrays-260", "@@VERIF-DEEP:arrays:260@@"),
    ("deep-arrays-1100", "@@VERIF-DEEP:arrays:1100@@"),
    ("deep-objects-260", "@@VERIF-DEEP:objects:260@@"),
    ("deep-oneof-260", "@@VERIF-DEEP:oneof:260@@"),
    ("deep-allof-260", "@@VERIF-DEEP:allof:260@@"),
    ("deep-example-lists-5000", "@@VERIF-DEEP:lists:5000@@"),
    ("exclusive-min", {"type": "integer", "minimum": 1, "exclusiveMinimum": True, "maximum": "x"}),
    ("multipleof-zero", {"type": "integer", "multipleOf": 0}),
]

PARAM_JUNK: list[tuple[str, Any]] = [
    ("param-no-schema", {"name": "zz", "in": "query"}),
    ("param-bad-in", {"name": "zz", "in": "body", "schema": {"type": "string"}}),
    ("param-no-name", {"in": "query", "schema": {"type": "string"}}),
    ("param-optional-path", {"name": "zz", "in": "path", "schema": {"type": "string"}}),
    ("param-header-array", {"name": "zz", "in": "header", "schema": {"type": "array", "items": {"type": "string"}}}),
    ("param-content", {"name": "zz", "in": "query", "content": {"application/json": {"schema": {"type": "object"}}}}),
    ("param-content-bad-ctype", {"name": "zz", "in": "query", "content": {"json": {"schema": {"type": "string"}}}}),
    ("param-content-empty-ctype", {"name": "zz", "in": "query", "content": {"": {"schema": {"type": "string"}}}}),
    ("param-content-wild", {"name": "zz", "in": "header", "content": {"*/*": {"schema": {"type": "string"}}}}),
    ("param-content-no-schema", {"name": "zz", "in": "query", "content": {"application/json": {}}}),
    ("param-content-empty", {"name": "zz", "in": "cookie", "content": {}}),
    ("param-content-two", {"name": "zz", "in": "query", "content": {"application/json": {"schema": {"type": "string"}}, "text/plain": {"schema": {"type": "integer"}}}}),
    ("param-content-and-schema", {"name": "zz", "in": "query", "schema": {"type": "string"}, "content": {"application/json": {"schema": {"type": "integer"}}}}),
    ("param-content-list", {"name": "zz", "in": "query", "content": []}),
    ("param-content-ref", {"name": "zz", "in": "query", "content": {"application/json": {"schema": {"$ref": "#/components/schemas/Nope"}}}}),
    ("param-style-deep", {"name": "zz", "in": "query", "style": "deepObject", "explode": True, "schema": {"type": "object", "properties": {"a": {"type": "string"}}}}),
    ("param-style-junk", {"name": "zz", "in": "query", "style": "wibble", "explode": "yes", "allowReserved": 1, "schema": {"type": "array", "items": {"type": "string"}}}),
    ("param-ref-dangling", {"$ref": "#/components/parameters/Nope"}),
    ("param-ref-schema", {"$ref": "#/components/schemas/Nope"}),
    ("param-name-client", {"name": "client", "in": "query", "schema": {"type": "string"}}),
    ("param-name-url", {"name": "url", "in": "header", "schema": {"type": "string"}}),
    ("param-name-empty", {"name": "", "in": "query", "schema": {"type": "string"}}),
    ("param-name-weird", {"name": "a b/c\"d", "in": "query", "schema": {"type": "string"}}),
    ("param-object-query", {"name": "zz", "in": "query", "schema": {"type": "object", "properties": {"a": {"type": "string"}}}}),
    ("param-cookie-object", {"name": "zz", "in": "cookie", "schema": {"type": "object"}}),
]

RESPONSE_JUNK: list[tuple[str, Any]] = [
    ("resp-no-description", {"content": {"application/json": {"schema": {"type": "string"}}}}),
    ("resp-xml", {"description": "x", "content": {"application/xml": {"schema": {"type": "string"}}}}),
    ("resp-bad-ctype", {"description": "x", "content": {"not a content type": {"schema": {"type": "string"}}}}),
    ("resp-no-schema", {"description": "x", "content": {"application/json": {}}}),
    ("resp-ref-dangling", {"$ref": "#/components/responses/Nope"}),
    ("resp-ref-schema", {"$ref": "#/components/schemas/Nope"}),
    ("resp-ref-remote", {"$ref": "http://example.com/x.yaml#/R"}),
    ("resp-array-no-items", {"description": "x", "content": {"application/json": {"schema": {"type": "array"}}}}),
    ("resp-content-list", {"description": "x", "content": []}),
    ("resp-empty-content", {"description": "x", "content": {}}),
]

BODY_JUNK: list[tuple[str, Any]] = [
    ("body-xml-only", {"content": {"application/xml": {"schema": {"type": "string"}}}}),
    ("body-no-schema", {"content": {"application/json": {}}}),
    ("body-empty-content", {"content": {}}),
    ("body-no-content", {"required": True}),
    ("body-ref-dangling", {"$ref": "#/components/requestBodies/Nope"}),
    ("body-ref-schema", {"$ref": "#/components/schemas/Nope"}),
    ("body-bad-ctype", {"content": {";;;": {"schema": {"type": "string"}}}}),
    ("body-multipart-scalar", {"content": {"multipart/form-data": {"schema": {"type": "string"}}}}),
    ("body-multipart-array", {"content": {"multipart/form-data": {"schema": {"type": "array", "items": {"type": "string", "format": "binary"}}}}}),
    ("body-form-scalar", {"content": {"application/x-www-form-urlencoded": {"schema": {"type": "integer"}}}}),
    ("body-form-array", {"content": {"application/x-www-form-urlencoded": {"schema": {"type": "array", "items": {"type": "string"}}}}}),
    ("body-octet-object", {"content": {"application/octet-stream": {"schema": {"type": "object", "properties": {"a": {"type": "string"}}}}}}),
    ("body-json-binary", {"content": {"application/json": {"schema": {"type": "string", "format": "binary"}}}}),
    ("body-multipart-union", {"content": {"multipart/form-data": {"schema": {"type": "object", "properties": {"u": {"oneOf": [{"type": "string"}, {"type": "object", "properties": {"a": {"type": "string"}}}, {"type": "array", "items": {"type": "integer"}}]}, "n": {"type": "string", "nullable": True}, "d": {"type": "string", "format": "date"}, "e": {"type": "string", "enum": ["a", "b"]}, "c": {"const": "k"}, "f": {"type": "array", "items": {"type": "string", "format": "binary"}}, "any": {}}}}}}),
    ("body-form-nested", {"content": {"application/x-www-form-urlencoded": {"schema": {"type": "object", "properties": {"o": {"type": "object", "properties": {"a": {"type": "string"}}}, "l": {"type": "array", "items": {"type": "string", "format": "date"}}, "u": {"oneOf": [{"type": "string"}, {"type": "integer"}]}, "f": {"type": "string", "format": "binary"}}}}}}),
    ("body-all-kinds", {"content": {"application/json": {"schema": {"type": "string"}}, "application/x-www-form-urlencoded": {"schema": {"type": "string"}}, "multipart/form-data": {"schema": {"type": "object"}}, "application/octet-stream": {"schema": {"type": "string", "format": "binary"}}, "text/plain": {"schema": {"type": "string"}}}}),
]


def all_pointers(doc: Any) -> list[tuple]:
    out: list[tuple] = []

    def walk(v: Any, p: tuple) -> None:
        if isinstance(v, dict):
            for k in v:
                out.append(p + (k,))
                walk(v[k], p + (k,))
        elif isinstance(v, list):
            for i in range(len(v)):
                out.append(p + (i,))
                walk(v[i], p + (i,))

    walk(doc, ())
    return out


def get_at(doc: Any, path: tuple) -> Any:
    cur = doc
    for k in path:
        cur = cur[k]
    return cur


def set_at(doc: Any, path: tuple, value: Any) -> None:
    cur = doc
    for k in path[:-1]:
        cur = cur[k]
    cur[path[-1]] = value


def ptr_str(path: tuple) -> str:
    return "#/" + "/".join(str(k).replace("~", "~0").replace("/", "~1") for k in path)


def pointer_class(path: tuple) -> str:
    """Structural class of a locus: concrete names and indexes replaced by *."""
    keep = {
        "openapi", "info", "title", "version", "description", "paths", "components", "schemas", "parameters",
        "requestBodies", "responses", "securitySchemes", "properties", "items", "prefixItems", "allOf", "oneOf",
        "anyOf", "additionalProperties", "required", "enum", "const", "type", "format", "default", "nullable",
        "$ref", "schema", "content", "requestBody", "operationId", "tags", "security", "name", "in", "summary",
        "get", "put", "post", "delete", "options", "head", "patch", "trace",
    }
    out = []
    prev = None
    for k in path:
        if isinstance(k, int):
            out.append("*")
        elif k in keep and prev not in ("properties", "schemas", "paths", "responses", "content", "parameters_c", "requestBodies"):
            out.append(k)
        elif k in keep and prev == "responses" and k == "content":
            out.append(k)
        else:
            out.append("*")
        prev = k if not isinstance(k, int) else prev
    return ".".join(out)


def looks_like(value: Any, path: tuple) -> str | None:
    """What kind of OpenAPI object sits at this pointer (for targeted junk)."""
    if not path:
        return None
    last = path[-1]
    par = path[-2] if len(path) >= 2 else None
    if last == "schema" or last in ("items", "additionalProperties") or par in ("properties", "allOf", "oneOf", "anyOf", "prefixItems"):
        return "schema"
    if par == "schemas" and len(path) == 3:
        return "schema"
    if par == "parameters" and (isinstance(last, int) or (len(path) == 3 and path[0] == "components")):
        return "parameter"
    if last == "requestBody" or (par == "requestBodies" and len(path) == 3):
        return "body"
    if par == "responses" and isinstance(value, dict):
        return "response"
    return None


# junk for KEYS that carry meaning (path templates, property / component names, status codes, media types)
KEY_JUNK: list[tuple[str, Any]] = [
    ("unclosed-long-placeholder", lambda k: str(k) + "/{path_relative_to_the_repository_root_without_end"),
    ("placeholder-star", lambda k: str(k) + "/{path_relative_to_the_repository_root*}"),
    ("placeholder-dotted", lambda k: str(k) + "/{user.id}"),
    ("placeholder-empty", lambda k: str(k) + "/{}"),
    ("placeholder-double", lambda k: str(k) + "/{{x}}"),
    ("placeholder-adjacent", lambda k: str(k) + "/{x}{y}"),
    ("placeholder-repeated", lambda k: str(k) + "/{x}/{x}"),
    ("query-in-key", lambda k: str(k) + "?q=1#frag"),
    ("dot-segments", lambda k: str(k) + "/../.."),
    ("empty-key", lambda k: ""),
    ("space-key", lambda k: " "),
    ("long-key", lambda k: str(k) + "x" * 300),
    ("unicode-key", lambda k: str(k) + "\u00e9\u4e2d\u0000"),
    ("quote-key", lambda k: str(k) + "\"'\\\n"),
    ("keyword-key", lambda k: "class"),
    ("dunder-key", lambda k: "__init__"),
    ("digit-key", lambda k: "123"),
    ("status-range", lambda k: "2XX"),
    ("status-default", lambda k: "default"),
    ("status-huge", lambda k: "99999999999999999999"),
    ("media-wild", lambda k: "*/*"),
    ("media-params", lambda k: str(k) + "; a=b; c=\"d;e\""),
    ("media-upper", lambda k: str(k).upper()),
    # media types as they arrive from hand-written or converted documents: folded, with stray separators, RFC 2231 / 5987 stars
    ("media-newline", lambda k: str(k) + ";\n charset=utf-8"),
    ("media-cr", lambda k: str(k) + ";\r\n\tcharset=utf-8"),
    ("media-vtab", lambda k: str(k) + ";\x0b a=b"),
    ("media-linesep", lambda k: str(k) + "; a=b\u2028"),
    ("media-nel", lambda k: str(k) + "\x85"),
    ("media-star-param", lambda k: str(k) + "; charset*"),
    ("media-star-value", lambda k: str(k) + "; filename*=UTF-8''x%20y"),
    ("media-star-index", lambda k: str(k) + "; a*0=b; a*1=c"),
    ("media-trailing-semicolon", lambda k: str(k) + ";"),
    ("media-only-semicolon", lambda k: ";"),
    ("media-open-quote", lambda k: str(k) + "; a=\"b"),
    ("media-space-before-semicolon", lambda k: str(k) + " ; charset=utf-8"),
    ("media-nonascii", lambda k: str(k) + "; n=\u00e9\u4e2d"),
]
KEYED_PARENTS = ("paths", "properties", "schemas", "responses", "content", "parameters", "requestBodies", "securitySchemes")

# a parameter described with `content` instead of `schema` (legal OpenAPI; the media-type key may be anything)
PARAM_CONTENT_MEDIA = ["application/json", "text/plain", "json", "application", "", "*/*", "application/json; charset=utf-8", ";;;", "a/b/c", "APPLICATION/JSON", "application/vnd.x+json"]

CYCLES = ["schemas-mutual-allof", "schemas-mutual-items", "schemas-self-ref-alias", "bodies-cycle", "responses-chain", "parameters-chain", "schemas-ref-chain",
          "bodies-rho-self", "bodies-rho-two", "bodies-long-chain", "responses-rho", "parameters-rho", "schemas-rho-allof", "schemas-rho-items", "schemas-cycle-with-bad-piece"]


def faults_at(doc: Any, p: tuple) -> list[dict]:
    """Every single fault applicable at one pointer (deterministic order)."""
    faults: list[dict] = []
    v = get_at(doc, p)
    lp = list(p)
    faults.append({"t": "tree", "op": "delete", "ptr": lp})
    faults.append({"t": "tree", "op": "dup", "ptr": lp})
    faults.append({"t": "tree", "op": "swap", "ptr": lp})
    for name, _ in JUNK:
        faults.append({"t": "tree", "op": "replace", "ptr": lp, "junk": name})
    for name in DYN_JUNK:
        faults.append({"t": "tree", "op": "replace", "ptr": lp, "junk": name})
    if isinstance(v, str) and v:
        for name in STR_DYN_JUNK:
            faults.append({"t": "tree", "op": "replace", "ptr": lp, "junk": name})
    kind = looks_like(v, p)
    lib = {"schema": SCHEMA_JUNK, "parameter": PARAM_JUNK, "response": RESPONSE_JUNK, "body": BODY_JUNK}.get(kind or "", [])
    for name, _ in lib:
        faults.append({"t": "tree", "op": "replace", "ptr": lp, "junk": f"{kind}:{name}"})
    if kind == "schema":
        for j in ("array-no-items", "enum-mixed", "allof-self", "string-with-properties"):
            faults.append({"t": "tree", "op": "merge", "ptr": lp, "junk": f"schema:{j}"})
    if kind == "parameter" and isinstance(v, dict) and "schema" in v:
        for i in range(len(PARAM_CONTENT_MEDIA)):
            faults.append({"t": "tree", "op": "to-content", "ptr": lp, "media": i})
    if len(p) >= 2 and isinstance(p[-1], str) and p[-2] in KEYED_PARENTS:
        for name, _ in KEY_JUNK:
            faults.append({"t": "tree", "op": "rename-key", "ptr": lp, "junk": name})
    return faults


def single_fault_space(doc: Any) -> list[dict]:
    """Enumerate the single-fault space of a document (deterministic order)."""
    faults: list[dict] = []
    for p in all_pointers(doc):
        faults.extend(faults_at(doc, p))
    for c in CYCLES:  # document-level reference cycles and chains
        faults.append({"t": "tree", "op": "cycle", "what": c})
    return faults


def _junk_value(name: str, doc: Any, path: tuple) -> Any:
    for lib_name, lib in (("schema", SCHEMA_JUNK), ("parameter", PARAM_JUNK), ("response", RESPONSE_JUNK), ("body", BODY_JUNK)):
        if name.startswith(lib_name + ":"):
            key = name.split(":", 1)[1]
            if key == "allof-self":
                comp = path[2] if len(path) >= 3 and path[0] == "components" and path[1] == "schemas" else "Nope"
                return {"allOf": [{"$ref": f"#/components/schemas/{comp}"}]}
            for n, v in lib:
                if n == key:
                    return copy.deepcopy(v)
            raise KeyError(name)
    for n, v in JUNK:
        if n == name:
            return copy.deepcopy(v)
    if name in STR_DYN_JUNK:
        cur = get_at(doc, path)
        cur = cur if isinstance(cur, str) else "x"
        if name == "str-first-char":
            return cur[:1]
        if name == "str-drop-last":
            return cur[:-1]
        if name == "str-append-dot":
            return cur + "."
        if name == "str-first-segment":
            return re.split(r"[./ _#-]", cur, maxsplit=1)[0]
        if name == "str-upper":
            return cur.upper() if cur.upper() != cur else cur.lower()
        return (cur or "x") * (10_000 // max(1, len(cur)) + 1)
    if name == "ref-ancestor":
        anc = path[: max(1, len(path) - 2)]
        return {"$ref": ptr_str(anc)}
    if name == "copy-parent":
        return copy.deepcopy(get_at(doc, path[:-1])) if len(path) >= 1 else {}
    if name == "ref-self-component":
        if len(path) >= 3 and path[0] == "components":
            return {"$ref": f"#/components/{path[1]}/{path[2]}"}
        return {"$ref": "#/components/schemas/Self"}
    if name == "wrong-type":
        v = get_at(doc, path)
        if isinstance(v, bool):
            return "true"
        if isinstance(v, (int, float)):
            return str(v)
        if isinstance(v, str):
            return 7
        if isinstance(v, list):
            return {"0": "x"}
        if isinstance(v, dict):
            return list(v.keys())
        return "null"
    raise KeyError(name)


class FaultNotApplicable(Exception):
    pass


def apply_tree_fault(doc: Any, f: dict) -> Any:
    d = copy.deepcopy(doc)
    op = f["op"]
    if op == "cycle":
        return _apply_cycle(d, f["what"])
    path = tuple(f["ptr"])
    try:
        parent = get_at(d, path[:-1])
        key = path[-1]
        _ = parent[key]
    except (KeyError, IndexError, TypeError) as e:
        raise FaultNotApplicable(str(e)) from e
    if op == "delete":
        del parent[key]
    elif op == "dup":
        if isinstance(parent, list):
            parent.insert(key, copy.deepcopy(parent[key]))
        else:
            k2 = key.swapcase() if isinstance(key, str) and key.swapcase() != key else str(key) + "_2"
            parent[k2] = copy.deepcopy(parent[key])
    elif op == "swap":
        if isinstance(parent, list):
            if len(parent) < 2:
                raise FaultNotApplicable("no sibling")
            j = (key + 1) % len(parent)
            parent[key], parent[j] = parent[j], parent[key]
        else:
            keys = list(parent)
            if len(keys) < 2:
                raise FaultNotApplicable("no sibling")
            j = keys[(keys.index(key) + 1) % len(keys)]
            parent[key], parent[j] = parent[j], parent[key]
    elif op == "replace":
        parent[key] = _junk_value(f["junk"], doc, path)
    elif op == "rename-key":
        if not isinstance(parent, dict):
            raise FaultNotApplicable("rename-key on a list")
        fn = dict(KEY_JUNK)[f["junk"]]
        new_key = fn(key)
        items = [(new_key if k == key else k, v) for k, v in parent.items()]  # keep the position in the map
        parent.clear()
        parent.update(items)
    elif op == "to-content":
        if not isinstance(parent[key], dict) or "schema" not in parent[key]:
            raise FaultNotApplicable("no schema to move under content")
        sch = parent[key].pop("schema")
        parent[key]["content"] = {PARAM_CONTENT_MEDIA[int(f["media"]) % len(PARAM_CONTENT_MEDIA)]: {"schema": sch}}
    elif op == "merge":
        if not isinstance(parent[key], dict):
            raise FaultNotApplicable("merge into non-dict")
        jv = _junk_value(f["junk"], doc, path)
        parent[key] = {**parent[key], **jv}
    else:
        raise ValueError(op)
    return d


def _apply_cycle(d: Any, what: str) -> Any:
    comps = d.setdefault("components", {}) if isinstance(d, dict) else None
    if comps is None or not isinstance(comps, dict):
        raise FaultNotApplicable("no components")
    if what == "schemas-mutual-allof":
        s = comps.setdefault("schemas", {})
        s["CycA"] = {"allOf": [{"$ref": "#/components/schemas/CycB"}, {"type": "object", "properties": {"a": {"type": "string"}}}]}
        s["CycB"] = {"allOf": [{"$ref": "#/components/schemas/CycA"}, {"type": "object", "properties": {"b": {"type": "string"}}}]}
    elif what == "schemas-mutual-items":
        s = comps.setdefault("schemas", {})
        s["CycA"] = {"type": "array", "items": {"$ref": "#/components/schemas/CycB"}}
        s["CycB"] = {"type": "array", "items": {"$ref": "#/components/schemas/CycA"}}
    elif what == "schemas-self-ref-alias":
        s = comps.setdefault("schemas", {})
        s["CycA"] = {"$ref": "#/components/schemas/CycA"}
        s["CycC"] = {"oneOf": [{"$ref": "#/components/schemas/CycC"}, {"type": "string"}]}
        s["CycD"] = {"type": "object", "additionalProperties": {"$ref": "#/components/schemas/CycD"}, "properties": {"me": {"$ref": "#/components/schemas/CycD"}}, "required": ["me"]}
    elif what == "schemas-ref-chain":
        s = comps.setdefault("schemas", {})
        s["ChA"] = {"allOf": [{"$ref": "#/components/schemas/ChB"}]}
        s["ChB"] = {"oneOf": [{"$ref": "#/components/schemas/ChC"}]}
        s["ChC"] = {"anyOf": [{"$ref": "#/components/schemas/ChA"}]}
    elif what == "bodies-cycle":
        b = comps.setdefault("requestBodies", {})
        b["CycB1"] = {"$ref": "#/components/requestBodies/CycB2"}
        b["CycB2"] = {"$ref": "#/components/requestBodies/CycB1"}
        _attach(d, "requestBody", {"$ref": "#/components/requestBodies/CycB1"})
    elif what == "responses-chain":
        r = comps.setdefault("responses", {})
        r["CycR1"] = {"$ref": "#/components/responses/CycR2"}
        r["CycR2"] = {"$ref": "#/components/responses/CycR1"}
        _attach(d, "responses", {"200": {"$ref": "#/components/responses/CycR1"}})
    elif what == "parameters-chain":
        p = comps.setdefault("parameters", {})
        p["CycP1"] = {"$ref": "#/components/parameters/CycP2"}
        p["CycP2"] = {"$ref": "#/components/parameters/CycP1"}
        _attach(d, "parameters", [{"$ref": "#/components/parameters/CycP1"}])
    elif what in ("bodies-rho-self", "bodies-rho-two", "bodies-long-chain"):
        # a chain that runs into a cycle NOT containing its start (rho shape), or simply a long chain that resolves
        b = comps.setdefault("requestBodies", {})
        b["RhoA"] = {"$ref": "#/components/requestBodies/RhoB"}
        if what == "bodies-rho-self":
            b["RhoB"] = {"$ref": "#/components/requestBodies/RhoB"}
        elif what == "bodies-rho-two":
            b["RhoB"] = {"$ref": "#/components/requestBodies/RhoC"}
            b["RhoC"] = {"$ref": "#/components/requestBodies/RhoD"}
            b["RhoD"] = {"$ref": "#/components/requestBodies/RhoC"}
        else:
            b["RhoB"] = {"$ref": "#/components/requestBodies/RhoC"}
            b["RhoC"] = {"$ref": "#/components/requestBodies/RhoD"}
            b["RhoD"] = {"content": {"application/json": {"schema": {"type": "string"}}}}
        _attach(d, "requestBody", {"$ref": "#/components/requestBodies/RhoA"})
    elif what == "responses-rho":
        r = comps.setdefault("responses", {})
        r["RhoR1"] = {"$ref": "#/components/responses/RhoR2"}
        r["RhoR2"] = {"$ref": "#/components/responses/RhoR3"}
        r["RhoR3"] = {"$ref": "#/components/responses/RhoR2"}
        _attach(d, "responses", {"200": {"$ref": "#/components/responses/RhoR1"}})
    elif what == "parameters-rho":
        p = comps.setdefault("parameters", {})
        p["RhoP1"] = {"$ref": "#/components/parameters/RhoP2"}
        p["RhoP2"] = {"$ref": "#/components/parameters/RhoP2"}
        _attach(d, "parameters", [{"$ref": "#/components/parameters/RhoP1"}])
    elif what == "schemas-rho-allof":
        s = comps.setdefault("schemas", {})
        s["RhoA"] = {"allOf": [{"$ref": "#/components/schemas/RhoB"}, {"type": "object", "properties": {"a": {"type": "string"}}}]}
        s["RhoB"] = {"allOf": [{"$ref": "#/components/schemas/RhoC"}, {"type": "object", "properties": {"b": {"type": "string"}}}]}
        s["RhoC"] = {"allOf": [{"$ref": "#/components/schemas/RhoB"}, {"type": "object", "properties": {"c": {"type": "string"}}}]}
    elif what == "schemas-rho-items":
        s = comps.setdefault("schemas", {})
        s["RhoA"] = {"type": "array", "items": {"$ref": "#/components/schemas/RhoB"}}
        s["RhoB"] = {"type": "array", "items": {"$ref": "#/components/schemas/RhoC"}}
        s["RhoC"] = {"oneOf": [{"$ref": "#/components/schemas/RhoB"}, {"type": "string"}]}
    elif what == "schemas-cycle-with-bad-piece":
        # legal reference cycles between models (through properties / array items) with an invalid piece ON the cycle
        s = comps.setdefault("schemas", {})
        s["CbA"] = {"type": "object", "properties": {"b": {"$ref": "#/components/schemas/CbB"}, "bad": {"type": "array"}}}
        s["CbB"] = {"type": "object", "properties": {"a": {"$ref": "#/components/schemas/CbA"}, "c": {"type": "array", "items": {"$ref": "#/components/schemas/CbC"}}}}
        s["CbC"] = {"type": "object", "properties": {"self": {"$ref": "#/components/schemas/CbC"}, "b": {"$ref": "#/components/schemas/CbB"}, "bad": {"$ref": "#/components/schemas/Nope"}}}
    else:
        raise ValueError(what)
    return d


def _attach(d: dict, key: str, value: Any) -> None:
    paths = d.get("paths")
    if not isinstance(paths, dict):
        raise FaultNotApplicable("no paths")
    for item in paths.values():
        if isinstance(item, dict):
            for m, op in item.items():
                if isinstance(op, dict) and m in ("get", "put", "post", "delete", "options", "head", "patch", "trace"):
                    op[key] = value
                    return
    raise FaultNotApplicable("no operation")


def sample_tree_faults(doc: Any, r: random.Random, k: int) -> list[dict]:
    ptrs = all_pointers(doc)
    out = []
    for _ in range(k):
        if r.random() < 0.04 or not ptrs:
            out.append({"t": "tree", "op": "cycle", "what": r.choice(CYCLES)})
            continue
        if r.random() < 0.06:
            # bias: the few top-level / info pointers (one in hundreds of a document's nodes) decide how the whole document
            # is treated (version dispatch, naming); string leaves there get near-miss values half of the time
            shallow = [q for q in ptrs if len(q) == 1 or q[0] == "info"]
            if shallow:
                p = r.choice(shallow)
                fl = faults_at(doc, p)
                if isinstance(get_at(doc, p), str) and r.random() < 0.5:
                    fl = [f for f in fl if f.get("junk") in STR_DYN_JUNK] or fl
                out.append(r.choice(fl))
                continue
        # bias: half of the draws land on schema/parameter/response/body loci with targeted junk
        if r.random() < 0.5:
            for _try in range(8):
                p = r.choice(ptrs)
                if looks_like(get_at(doc, p), p) is not None:
                    break
            fl = faults_at(doc, p)
            targeted = [f for f in fl if ":" in str(f.get("junk", "")) or f["op"] in ("merge", "rename-key", "to-content")]
            out.append(r.choice(targeted or fl))
        else:
            out.append(r.choice(faults_at(doc, r.choice(ptrs))))
    return out


# ---------------------------------------------------------------------- byte faults
BYTE_JUNK = [b"\x00", b"\xff", b"\xef\xbb\xbf", b"\r", b"\t", b"\xfe\xff", b"{", b"}", b"[", b"]", b":", b",", b"\"", b"'", b"&a ", b"*a ", b"!!python/object:os.system ", b"%", b"---\n", b"...\n", b"\\u0000", b"\xc3\x28", b"\xed\xa0\x80", b"1e999", b"- ", b"? ", b"|\n", b">\n", b"#", b"`", b"@"]


def sample_byte_fault(data: bytes, r: random.Random) -> dict:
    n = len(data)
    op = r.choice(["truncate", "truncate", "bitflip", "span-delete", "span-dup", "insert", "insert", "utf16", "replace-byte"])
    if op == "truncate":
        return {"t": "bytes", "op": op, "at": r.randrange(0, n + 1)}
    if op == "bitflip":
        return {"t": "bytes", "op": op, "at": r.randrange(0, max(1, n)), "bit": r.randrange(8)}
    if op in ("span-delete", "span-dup"):
        a = r.randrange(0, max(1, n))
        return {"t": "bytes", "op": op, "at": a, "len": r.choice([1, 2, 5, 17, 64, 300])}
    if op == "insert":
        return {"t": "bytes", "op": op, "at": r.randrange(0, n + 1), "junk": r.randrange(len(BYTE_JUNK))}
    if op == "replace-byte":
        return {"t": "bytes", "op": op, "at": r.randrange(0, max(1, n)), "junk": r.randrange(len(BYTE_JUNK))}
    return {"t": "bytes", "op": "utf16"}


def apply_byte_fault(data: bytes, f: dict) -> bytes:
    op = f["op"]
    if op == "truncate":
        return data[: f["at"]]
    if op == "bitflip":
        if not data:
            return data
        i = min(f["at"], len(data) - 1)
        return data[:i] + bytes([data[i] ^ (1 << f["bit"])]) + data[i + 1 :]
    if op == "span-delete":
        return data[: f["at"]] + data[f["at"] + f["len"] :]
    if op == "span-dup":
        return data[: f["at"] + f["len"]] + data[f["at"] : f["at"] + f["len"]] + data[f["at"] + f["len"] :]
    if op == "insert":
        return data[: f["at"]] + BYTE_JUNK[f["junk"]] + data[f["at"] :]
    if op == "replace-byte":
        i = min(f["at"], max(0, len(data) - 1))
        return data[:i] + BYTE_JUNK[f["junk"]] + data[i + 1 :]
    if op == "utf16":
        try:
            return data.decode("utf-8").encode("utf-16")
        except UnicodeDecodeError:
            return data
    raise ValueError(op)


# payloads that are well-formed JSON/YAML but not documents, and YAML-specific shapes
CORPUS: list[tuple[str, bytes]] = [
    ("empty", b""),
    ("whitespace", b"  \n\t\n"),
    ("null", b"null"),
    ("yaml-tilde", b"~"),
    ("int", b"5"),
    ("float", b"1.5"),
    ("string-swagger", b"\"swagger\""),
    ("bare-word", b"swagger"),
    ("list-empty", b"[]"),
    ("list", b"[1, 2, 3]"),
    ("list-of-dict", b"[{\"openapi\": \"3.0.0\"}]"),
    ("true", b"true"),
    ("dict-empty", b"{}"),
    ("swagger2", b"{\"swagger\": \"2.0\", \"info\": {\"title\": \"x\", \"version\": \"1\"}, \"paths\": {}}"),
    ("openapi-int", b"{\"openapi\": 3, \"info\": {\"title\": \"x\", \"version\": \"1\"}, \"paths\": {}}"),
    ("openapi-4", b"{\"openapi\": \"4.0.0\", \"info\": {\"title\": \"x\", \"version\": \"1\"}, \"paths\": {}}"),
    ("minimal-ok", b"{\"openapi\": \"3.0.0\", \"info\": {\"title\": \"x\", \"version\": \"1\"}, \"paths\": {}}"),
    ("title-empty", b"{\"openapi\": \"3.0.0\", \"info\": {\"title\": \"\", \"version\": \"1\"}, \"paths\": {}}"),
    ("title-symbols", b"{\"openapi\": \"3.0.0\", \"info\": {\"title\": \"!!!\", \"version\": \"1\"}, \"paths\": {}}"),
    ("title-dots", b"{\"openapi\": \"3.0.0\", \"info\": {\"title\": \"..\", \"version\": \"1\"}, \"paths\": {}}"),
    ("title-digit", b"{\"openapi\": \"3.0.0\", \"info\": {\"title\": \"123\", \"version\": \"1\"}, \"paths\": {}}"),
    ("multi-doc-yaml", b"openapi: 3.0.0\n---\ninfo: {title: x, version: '1'}\n"),
    ("yaml-anchor", b"a: &a {b: 1}\nc: *a\nopenapi: 3.0.0\ninfo: {title: x, version: '1'}\npaths: {}\n"),
    ("yaml-merge", b"base: &b {title: x, version: '1'}\nopenapi: 3.0.0\ninfo: {<<: *b}\npaths: {}\n"),
    ("yaml-recursive-anchor", b"a: &a [*a]\n"),
    ("yaml-tag-python", b"!!python/object/apply:os.system ['true']\n"),
    ("yaml-dup-keys", b"openapi: 3.0.0\nopenapi: 3.0.1\ninfo: {title: x, version: '1'}\npaths: {}\n"),
    ("yaml-int-keys", b"openapi: 3.0.0\ninfo: {title: x, version: '1'}\npaths: {1: {get: {responses: {200: {description: ok}}}}}\n"),
    ("yaml-status-int", b"openapi: 3.0.0\ninfo: {title: x, version: '1'}\npaths: {/a: {get: {responses: {200: {description: ok}}}}}\n"),
    ("yaml-date-version", b"openapi: 3.0.0\ninfo: {title: x, version: 2020-01-01}\npaths: {}\n"),
    ("yaml-float-version", b"openapi: 3.0\ninfo: {title: x, version: 1.0}\npaths: {}\n"),
    ("yaml-bool-keys", b"openapi: 3.0.0\ninfo: {title: x, version: '1'}\npaths: {yes: {get: {responses: {'200': {description: ok}}}}}\n"),
    ("yaml-null-key", b"openapi: 3.0.0\ninfo: {title: x, version: '1'}\npaths: {~: {}}\n"),
    ("yaml-binary", b"openapi: 3.0.0\ninfo: {title: !!binary aGVsbG8=, version: '1'}\npaths: {}\n"),
    ("yaml-set", b"openapi: 3.0.0\ninfo: {title: x, version: '1'}\npaths: !!set {a, b}\n"),
    ("yaml-invalid-native-date", b"openapi: 3.0.0\ninfo: {title: x, version: '1'}\npaths: {}\nx-d: 2024-01-80\n"),
    ("yaml-invalid-native-timestamp", b"openapi: 3.0.0\ninfo: {title: x, version: '1'}\npaths: {}\nx-t: 2024-13-01T00:00:00Z\n"),
    ("yaml-bad-binary", b"a: !!binary '???'\n"),
    ("yaml-bad-int-tag", b"a: !!int abc\n"),
    ("yaml-bad-float-tag", b"a: !!float x.y\n"),
    ("yaml-mapping-key-is-mapping", b"{.: {t: {{[{}]}}}}"),
    ("yaml-complex-key", b"? {a: 1}\n: 2\nopenapi: 3.0.0\n"),
    ("yaml-seq-key", b"? [a, b]\n: 1\n"),
    ("yaml-flow-map-key", b"{{a: 1}: 2}"),
    ("yaml-huge-int", b"openapi: 3.0.0\ninfo: {title: x, version: '1'}\npaths: {}\nx-n: " + b"9" * 400 + b"\n"),
    ("json-nan", b"{\"openapi\": \"3.0.0\", \"info\": {\"title\": \"x\", \"version\": \"1\"}, \"paths\": {}, \"x\": NaN}"),
    ("json-trailing", b"{\"openapi\": \"3.0.0\"} trailing"),
    ("json-dup-keys", b"{\"openapi\": \"3.0.0\", \"openapi\": \"3.0.1\", \"info\": {\"title\": \"x\", \"version\": \"1\"}, \"paths\": {}}"),
    ("json-lone-surrogate", b"{\"openapi\": \"3.0.0\", \"info\": {\"title\": \"\\ud800\", \"version\": \"1\"}, \"paths\": {}}"),
    ("json-nul-title", b"{\"openapi\": \"3.0.0\", \"info\": {\"title\": \"a\\u0000b\", \"version\": \"1\"}, \"paths\": {}}"),
    ("json-deep-40", b"[" * 40 + b"]" * 40),
    ("bom-json", b"\xef\xbb\xbf{\"openapi\": \"3.0.0\", \"info\": {\"title\": \"x\", \"version\": \"1\"}, \"paths\": {}}"),
    ("latin1", "{\"openapi\": \"3.0.0\", \"info\": {\"title\": \"caf\xe9\", \"version\": \"1\"}, \"paths\": {}}".encode("latin-1")),
    ("binary-garbage", bytes(range(256))),
    ("html", b"<!DOCTYPE html><html><body>404 Not Found</body></html>"),
    ("paths-list", b"{\"openapi\": \"3.0.0\", \"info\": {\"title\": \"x\", \"version\": \"1\"}, \"paths\": []}"),
    ("paths-null-item", b"{\"openapi\": \"3.0.0\", \"info\": {\"title\": \"x\", \"version\": \"1\"}, \"paths\": {\"/a\": null}}"),
    ("components-null", b"{\"openapi\": \"3.0.0\", \"info\": {\"title\": \"x\", \"version\": \"1\"}, \"paths\": {}, \"components\": null}"),
    ("schemas-null", b"{\"openapi\": \"3.0.0\", \"info\": {\"title\": \"x\", \"version\": \"1\"}, \"paths\": {}, \"components\": {\"schemas\": null}}"),
]


def add_yaml_native(doc: Any, variant: int = 0) -> Any:
    """YAML-only: give every typed schema an `example` that is a NATIVE YAML scalar (an unquoted date, a timestamp,
    a !!binary) - values a JSON document cannot contain but that the YAML loader hands to the generator as Python
    date / datetime / bytes objects."""
    import datetime

    native = [datetime.date(2024, 1, 31), datetime.datetime(2024, 1, 31, 12, 30, 0), b"\x00\x01binary"][variant % 3]

    def walk(x: Any) -> Any:
        if isinstance(x, dict):
            y = {k: walk(v) for k, v in x.items()}
            if "type" in x and "example" not in x and isinstance(x.get("type"), (str, list)):
                y["example"] = native
            return y
        if isinstance(x, list):
            return [walk(v) for v in x]
        return x

    return walk(doc)


_DEEP_SHAPES = {
    "arrays": ('{"type": "array", "items": ', '{"type": "string"}', "}"),
    "objects": ('{"type": "object", "properties": {"p": ', '{"type": "string"}', "}}"),
    "oneof": ('{"oneOf": [{"type": "integer"}, ', '{"type": "string"}', "]}"),
    "allof": ('{"allOf": [', '{"type": "object", "properties": {"a": {"type": "string"}}}', "]}"),
    "lists": ('{"type": "string", "example": ' + "[" * 1, '"x"', "]}"),
}
_DEEP_RE = re.compile(rb"""['"]?@@VERIF-DEEP:(\w+):(\d+)@@['"]?""")


def _expand_deep(data: bytes) -> bytes:
    """Replace each deep-nesting placeholder by its flow-style JSON text (valid in JSON and in YAML documents)."""

    def sub(m: "re.Match[bytes]") -> bytes:
        kind, n = m.group(1).decode(), int(m.group(2))
        if kind == "lists":
            return ('{"type": "string", "example": ' + "[" * n + '"x"' + "]" * n + "}").encode()
        opener, core, closer = _DEEP_SHAPES.get(kind, _DEEP_SHAPES["arrays"])
        return (opener * n + core + closer * n).encode()

    return _DEEP_RE.sub(sub, data) if b"@@VERIF-DEEP:" in data else data


def dumps(doc: Any, ser: str) -> bytes:
    if ser == "json":
        return _expand_deep(json.dumps(doc, indent=1).encode())
    if ser == "json-compact":
        return _expand_deep(json.dumps(doc, separators=(",", ":")).encode())
    from io import BytesIO

    from ruamel.yaml import YAML

    y = YAML(typ="safe")
    y.default_flow_style = ser == "yaml-flow"
    buf = BytesIO()
    y.dump(doc, buf)
    return _expand_deep(buf.getvalue())
