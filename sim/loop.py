"""Virtual-time asyncio event loop: time() is a simulated clock, there is no selector, and when
nothing is runnable the clock jumps to the next timer.  Ready callbacks stay FIFO (asyncio's
contract); interleavings are decided by seed-drawn virtual latencies at the await points."""
from __future__ import annotations

import asyncio
from typing import Any


class SimDeadlock(RuntimeError):
    pass


class _FakeSelector:
    def __init__(self, loop: "SimLoop") -> None:
        self.loop = loop

    def select(self, timeout: float | None) -> list:
        if timeout is None:
            raise SimDeadlock("simulation deadlock: no ready callback and no timer")
        if timeout > 0:
            self.loop._vtime += timeout
            self.loop.jumps += 1
        return []

    def close(self) -> None:
        pass


class SimLoop(asyncio.BaseEventLoop):
    def __init__(self) -> None:
        super().__init__()
        self._vtime = 0.0
        self.jumps = 0
        self._selector = _FakeSelector(self)
        self._clock_resolution = 1e-9

    def time(self) -> float:
        return self._vtime

    def _process_events(self, event_list: Any) -> None:
        pass

    def _write_to_self(self) -> None:
        pass

    def close(self) -> None:
        if self.is_running():
            raise RuntimeError("cannot close a running loop")
        if self.is_closed():
            return
        super().close()


def run(coro: Any, loop: SimLoop | None = None) -> Any:
    """Run a coroutine to completion on a fresh SimLoop (deterministic task names)."""
    own = loop is None
    loop = loop or SimLoop()
    try:
        asyncio.set_event_loop(loop)
        task = loop.create_task(coro, name="sim-main")
        return loop.run_until_complete(task)
    finally:
        if own:
            try:
                loop.run_until_complete(loop.shutdown_asyncgens())
            finally:
                asyncio.set_event_loop(None)
                loop.close()
