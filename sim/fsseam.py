"""Output-filesystem seam: Python-level interposition on every mutating file-system call the
generator can make (open for write / write, mkdir, unlink, rmdir, rename, replace, symlink,
link, os.open with write flags).  Every mutating op under the watch root gets a global
sequence number; the simulator may crash before op k, crash after a prefix of the bytes of
write k (torn file), or make op k fail with an errno.  Real tmpfs underneath.
"""
from __future__ import annotations

import builtins
import errno as _errno
import hashlib
import io
import os
import threading
from typing import Any


# Set by a world that runs several generator "processes" as threads under sim.threads.ThreadSched: called by the thread
# that is about to perform a mutating file-system call, BEFORE the call - the scheduler may hand the baton to another one.
YIELD: Any = None


class SimCrash(BaseException):
    """The process 'dies' here: unwinds to the harness, nothing in the generator catches it."""


class SimEscape(BaseException):
    """A mutating file-system call outside the sandbox was attempted.  It is NOT performed (the simulator
    must never let the system under test touch the real machine); it is recorded and the run is ended."""


_WRITE_FLAGS = os.O_WRONLY | os.O_RDWR | os.O_CREAT | os.O_TRUNC | os.O_APPEND


class _WFile:
    """Proxy around a file opened for writing; each write() is a mutating op."""

    def __init__(self, seam: "FsSeam", f: Any, path: str) -> None:
        object.__setattr__(self, "_seam", seam)
        object.__setattr__(self, "_f", f)
        object.__setattr__(self, "_path", path)

    def write(self, data):  # type: ignore[no-untyped-def]
        return self._seam._do_write(self._f, self._path, data)

    def writelines(self, lines):  # type: ignore[no-untyped-def]
        for ln in lines:
            self.write(ln)

    def __enter__(self):  # type: ignore[no-untyped-def]
        self._f.__enter__()
        return self

    def __exit__(self, *a):  # type: ignore[no-untyped-def]
        return self._f.__exit__(*a)

    def __iter__(self):  # type: ignore[no-untyped-def]
        return iter(self._f)

    def __getattr__(self, name: str) -> Any:
        return getattr(self._f, name)

    def __setattr__(self, name: str, value: Any) -> None:
        setattr(self._f, name, value)


class FsSeam:
    def __init__(
        self,
        watch_root: str,
        crash_at: int | None = None,
        torn: float | None = None,
        error_at: int | None = None,
        error_errno: int = _errno.ENOSPC,
        hard: bool = False,
        error_persistent: bool = False,
    ) -> None:
        self.watch_root = os.path.realpath(watch_root)
        self.sandbox_root = os.path.dirname(self.watch_root)  # harness-owned files (config, documents, fresh trees) live here
        self.escapes: list[dict] = []
        self.crash_at = crash_at
        self.torn = torn
        self.error_at = error_at
        self.error_errno = error_errno
        # hard: the crash is a KILL - nothing the unwinding code (finally / except clean-ups) does reaches the disk any
        # more; soft (default): the crash is an exception such as KeyboardInterrupt, clean-up handlers run normally
        self.hard = hard
        self.dead = False
        # persistent: the errno condition stays (a full disk stays full): every mutating op from error_at on fails
        self.error_persistent = error_persistent
        self.k = 0
        self.log: list[dict] = []
        self.fired: str | None = None
        self._saved: dict[tuple[Any, str], Any] = {}
        self._active = False

    # ---------------------------------------------------------------- helpers
    def _abs(self, path: Any, dir_fd: int | None = None) -> str:
        p = os.fsdecode(path) if not isinstance(path, int) else f"<fd {path}>"
        if dir_fd is not None and not os.path.isabs(p):
            try:
                base = os.readlink(f"/proc/self/fd/{dir_fd}")
            except OSError:
                base = f"<dirfd {dir_fd}>"
            p = os.path.join(base, p)
        p = os.path.abspath(p)
        # resolve symlinks in the directory part only (the final component is what is created/removed)
        d, b = os.path.split(p)
        try:
            d = os.path.realpath(d)
        except OSError:
            pass
        return os.path.join(d, b)

    def _inside(self, p: str) -> bool:
        return p == self.watch_root or p.startswith(self.watch_root + os.sep)

    def _rel(self, p: str) -> str:
        if self._inside(p):
            return os.path.relpath(p, self.watch_root)
        return "ABS:" + p

    def _begin(self, op: str, path: str, **extra: Any) -> dict | None:
        """Number the op, decide faults.  Returns the log record (or None if not watched)."""
        if not self._active:
            return None
        if not self._inside(path):
            rec = {"k": None, "op": op, "path": self._rel(path), "ok": None, "foreign": True}
            rec.update(extra)
            self.log.append(rec)
            harness_owned = path == self.sandbox_root or path.startswith(self.sandbox_root + os.sep)
            if not (harness_owned or path == os.devnull or path.startswith("/proc/")):
                rec["blocked"] = True
                rec["ok"] = False
                self.escapes.append(rec)
                self.fired = self.fired or "escape-blocked"
                raise SimEscape(f"blocked {op} on {path}: outside the sandbox")
            return rec
        if YIELD is not None:
            YIELD(f"fs:{op}")
        if self.dead:
            rec = {"k": None, "op": op, "path": self._rel(path), "ok": False, "fault": "after-kill"}
            self.log.append(rec)
            raise SimCrash(f"{op} {rec['path']} attempted by a killed process")
        k = self.k
        self.k += 1
        rec = {"k": k, "op": op, "path": self._rel(path), "ok": None, "tid": threading.get_ident()}
        rec.update(extra)
        self.log.append(rec)
        if self.crash_at is not None and k == self.crash_at and not (op == "write" and self.torn is not None):
            rec["ok"] = False
            rec["fault"] = "crash-before"
            self.fired = "crash-before" if not self.hard else "kill-before"
            self.dead = self.hard
            raise SimCrash(f"crash before op {k} {op} {rec['path']}")
        if self.error_at is not None and (k == self.error_at or (self.error_persistent and k > self.error_at)):
            rec["ok"] = False
            rec["fault"] = f"errno-{_errno.errorcode.get(self.error_errno, self.error_errno)}"
            self.fired = self.fired or (rec["fault"] + ("-persistent" if self.error_persistent else ""))
            raise OSError(self.error_errno, os.strerror(self.error_errno), path)
        return rec

    @staticmethod
    def _end(rec: dict | None, err: BaseException | None = None) -> None:
        if rec is None:
            return
        if err is None:
            rec["ok"] = True
        else:
            rec["ok"] = False
            rec["err"] = type(err).__name__

    def _wrap(self, op: str, real, path_arg, dir_fd=None, **extra):  # type: ignore[no-untyped-def]
        def call(*a: Any, **kw: Any):  # type: ignore[no-untyped-def]
            return real(*a, **kw)

        return call

    # ---------------------------------------------------------------- writes
    def _do_write(self, f: Any, path: str, data: Any):  # type: ignore[no-untyped-def]
        if isinstance(data, str):
            raw = data.encode("utf-8", "surrogatepass")
        else:
            raw = bytes(data)
        rec = self._begin("write", path, len=len(raw), sha=hashlib.sha256(raw).hexdigest()[:16])
        if rec is not None and rec.get("k") is not None and self.crash_at == rec["k"] and self.torn is not None:
            n = int(len(data) * self.torn)
            try:
                f.write(data[:n])
                f.flush()
            finally:
                rec["ok"] = False
                rec["fault"] = "torn-write"
                rec["torn_len"] = n
                self.fired = "torn-write" if not self.hard else "kill-torn-write"
                self.dead = self.hard
            raise SimCrash(f"torn write at op {rec['k']} {rec['path']} ({n}/{len(data)})")
        try:
            out = f.write(data)
        except BaseException as e:  # noqa: BLE001
            self._end(rec, e)
            raise
        self._end(rec)
        return out

    # ---------------------------------------------------------------- install
    def __enter__(self) -> "FsSeam":
        seam = self
        real_open = builtins.open
        real_os_open = os.open

        def s_open(file, mode="r", *a, **kw):  # type: ignore[no-untyped-def]
            if isinstance(file, int) or not any(c in mode for c in "wax+"):
                return real_open(file, mode, *a, **kw)
            p = seam._abs(file)
            rec = seam._begin("open", p, mode=mode)
            try:
                f = real_open(file, mode, *a, **kw)
            except BaseException as e:  # noqa: BLE001
                seam._end(rec, e)
                raise
            seam._end(rec)
            if rec is None:
                return f
            return _WFile(seam, f, p)

        def s_os_open(path, flags, mode=0o777, *, dir_fd=None):  # type: ignore[no-untyped-def]
            if not (flags & _WRITE_FLAGS):
                return real_os_open(path, flags, mode, dir_fd=dir_fd)
            p = seam._abs(path, dir_fd)
            rec = seam._begin("os.open", p, flags=flags)
            try:
                fd = real_os_open(path, flags, mode, dir_fd=dir_fd)
            except BaseException as e:  # noqa: BLE001
                seam._end(rec, e)
                raise
            seam._end(rec)
            return fd

        def one_path(op: str, real):  # type: ignore[no-untyped-def]
            def f(path, *a, dir_fd=None, **kw):  # type: ignore[no-untyped-def]
                p = seam._abs(path, dir_fd)
                rec = seam._begin(op, p)
                try:
                    if dir_fd is not None:
                        out = real(path, *a, dir_fd=dir_fd, **kw)
                    else:
                        out = real(path, *a, **kw)
                except BaseException as e:  # noqa: BLE001
                    seam._end(rec, e)
                    raise
                seam._end(rec)
                return out

            return f

        def two_path(op: str, real):  # type: ignore[no-untyped-def]
            def f(src, dst, *a, **kw):  # type: ignore[no-untyped-def]
                ps = seam._abs(src, kw.get("src_dir_fd"))
                pd = seam._abs(dst, kw.get("dst_dir_fd", kw.get("dir_fd")))
                rec = seam._begin(op, pd, src=seam._rel(ps))
                if not seam._inside(pd) and seam._inside(ps) and rec is not None:
                    rec["path_src_inside"] = True
                try:
                    out = real(src, dst, *a, **kw)
                except BaseException as e:  # noqa: BLE001
                    seam._end(rec, e)
                    raise
                seam._end(rec)
                return out

            return f

        import subprocess as _subprocess

        real_run = _subprocess.run

        def s_run(*a: Any, **kw: Any):  # type: ignore[no-untyped-def]
            # a child process started by the generator (a post hook) is a peer that works in a directory of its own choosing:
            # the spawn is an operation like any other (numbered, can be the crash point, can fail with an errno)
            where = kw.get("cwd") or os.getcwd()
            rec = seam._begin("spawn", seam._abs(str(where)), cmd=str(a[0] if a else kw.get("args"))[:80])
            try:
                out = real_run(*a, **kw)
            except BaseException as e:  # noqa: BLE001
                seam._end(rec, e)
                raise
            seam._end(rec)
            return out

        patches: list[tuple[Any, str, Any]] = [
            (_subprocess, "run", s_run),
            (builtins, "open", s_open),
            (io, "open", s_open),
            (os, "open", s_os_open),
            (os, "mkdir", one_path("mkdir", os.mkdir)),
            (os, "unlink", one_path("unlink", os.unlink)),
            (os, "remove", one_path("unlink", os.remove)),
            (os, "rmdir", one_path("rmdir", os.rmdir)),
            (os, "truncate", one_path("truncate", os.truncate)),
            (os, "chmod", one_path("chmod", os.chmod)),
            (os, "rename", two_path("rename", os.rename)),
            (os, "replace", two_path("replace", os.replace)),
            (os, "symlink", two_path("symlink", os.symlink)),
            (os, "link", two_path("link", os.link)),
        ]
        for mod, name, fn in patches:
            self._saved[(mod, name)] = getattr(mod, name)
            setattr(mod, name, fn)
        self._active = True
        return self

    def __exit__(self, *a: Any) -> None:
        self._active = False
        for (mod, name), fn in self._saved.items():
            setattr(mod, name, fn)
        self._saved.clear()

    # ---------------------------------------------------------------- views
    def mutating_ok(self) -> list[dict]:
        """Ops that were performed (returned), i.e. that changed the file system."""
        return [r for r in self.log if r.get("ok") or r.get("fault") == "torn-write"]

    def lines(self) -> list[str]:
        out = []
        for r in self.log:
            out.append(
                "fs k={k} {op} {path} ok={ok}{extra}".format(
                    k=r.get("k"),
                    op=r["op"],
                    path=r["path"],
                    ok=r.get("ok"),
                    extra="".join(f" {x}={r[x]}" for x in ("len", "sha", "err", "fault", "torn_len", "src", "blocked", "cmd") if x in r),
                )
            )
        return out
