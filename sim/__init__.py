"""GenWorld: deterministic simulation with fault injection for openapi-python-client."""
