"""Generic check driver: seeded search over runs, aggregation, minimisation, replay
confirmation in a fresh interpreter, known-findings matching, evidence.

A check module provides
  PROP, LEVEL, RULE, FN_SEED ("mod:func"), FN_SPEC ("mod:func")
  plan(tier, seed) -> dict(n_runs=..., budget_s=..., extra job args)
  shrink_candidates(spec) -> list[spec]     (smaller explicit specs, most aggressive first)
  optional: seed_jobs(tier, seed, plan) -> iterable of job dicts (default: one per run index)
Run results (from the worker functions) are dicts with
  violations:[{kind, locus, detail}], spec (explicit, present when violations), skipped,
  faults{}, probes{}, states[], nontrivial(bool), fingerprint, sim_time, sample
"""
from __future__ import annotations

import collections
import json
import os
import re
import subprocess
import sys
import time
from typing import Any, Callable

from . import pool as poolmod
from . import rng

VERIF = os.path.dirname(os.path.dirname(os.path.abspath(__file__)))
KNOWN_PATH = os.path.join(VERIF, "known_findings.json")


def vclass(v: dict) -> str:
    return f"{v['kind']}|{v.get('locus', '')}"


def load_known(prop: str) -> list[dict]:
    if os.environ.get("VERIF_NO_KNOWN") == "1":  # maintenance only: regenerate the example replays under known/
        return []
    try:
        with open(KNOWN_PATH) as f:
            data = json.load(f)
    except FileNotFoundError:
        return []
    return [e for e in data.get("findings", []) if e.get("property") == prop and e.get("status") == "open"]


def match_known(known: list[dict], v: dict) -> dict | None:
    for e in known:
        m = e["match"]
        if m.get("kind") != v["kind"]:
            continue
        if "locus_re" in m and not re.search(m["locus_re"], v.get("locus", "")):
            continue
        if "locus" in m and m["locus"] != v.get("locus", ""):
            continue
        if "detail_re" in m and not re.search(m["detail_re"], v.get("detail", "")):
            continue
        return e
    return None


class Driver:
    def __init__(self, check: Any, tier: str, seed: int, out=sys.stdout) -> None:
        self.c = check
        self.tier = tier
        self.seed = seed
        self.out = out
        self.t0 = time.monotonic()
        self.known = load_known(check.PROP)
        self.agg_faults: collections.Counter = collections.Counter()
        self.agg_probes: collections.Counter = collections.Counter()
        self.states: set[str] = set()
        self.nontrivial: set[str] = set()
        self.samples: list[Any] = []
        self.runs = 0
        self.skipped: collections.Counter = collections.Counter()
        self.sim_time = 0.0
        self.harness_errors: list[str] = []
        self.viol_by_class: dict[str, dict] = {}
        self.viol_counts: collections.Counter = collections.Counter()
        self.known_hits: collections.Counter = collections.Counter()
        self.known_entry: dict[str, dict] = {}
        self.reported: list[dict] = []
        self.extra_cov: dict[str, Any] = {}

    # ------------------------------------------------------------------ main loop
    def on_result(self, job: dict, env: dict) -> None:
        st = env.get("status")
        if st != "ok":
            if st == "timeout" and getattr(self.c, "TIMEOUT_IS_VIOLATION", False):
                v = {"kind": "hang-wall", "locus": "", "detail": f"run killed after {env.get('timeout_s')} s wall"}
                self._record_violation(v, {"spec": None, "job": job})
                return
            self.harness_errors.append(f"job {job.get('args', {}).get('seed', job.get('id'))}: {st} {env.get('error', '')} {env.get('traceback', '')[-800:]}")
            return
        res = env["result"]
        self.ingest(res)

    def ingest(self, res: dict) -> None:
        self.runs += 1
        if res.get("skipped"):
            self.skipped[res["skipped"]] += 1
        for k, n in (res.get("faults") or {}).items():
            self.agg_faults[k] += n
        for k, n in (res.get("probes") or {}).items():
            self.agg_probes[k] += n
        for s in res.get("states") or []:
            self.states.add(s)
        for s in res.get("nontrivial_keys") or []:
            self.nontrivial.add(s)
        self.sim_time += float(res.get("sim_time") or 0.0)
        if res.get("sample") is not None and len(self.samples) < 6:
            self.samples.append(res["sample"])
        for v in res.get("violations") or []:
            self._record_violation(v, res)

    def _record_violation(self, v: dict, res: dict) -> None:
        cls = vclass(v)
        e = match_known(self.known, v)
        if e is not None:
            self.known_hits[e["id"]] += 1
            self.known_entry[e["id"]] = e
            return
        self.viol_counts[cls] += 1
        if cls not in self.viol_by_class:
            self.viol_by_class[cls] = {"violation": v, "spec": res.get("spec")}

    def execute(self) -> int:
        c = self.c
        plan = c.plan(self.tier, self.seed)
        budget = float(os.environ.get("VERIF_BUDGET_S", plan.get("budget_s", 60)))
        deadline = self.t0 + budget
        hs = plan.get("hashseeds") or poolmod.default_hashseeds(poolmod.n_workers())
        with poolmod.Pool(hs, per_worker_env=plan.get("per_worker_env")) as pool:
            self.pool = pool
            if hasattr(c, "coordinate"):
                c.coordinate(self, pool, plan, deadline)
            else:
                jobs = self._seed_jobs(plan)
                pool.run(jobs, self.on_result, deadline=deadline, stop=lambda: len(self.viol_by_class) >= 12)
            rc = self._finish(self.pool, plan)
            if self.pool is not pool:
                self.pool.close()
        return rc

    def _seed_jobs(self, plan: dict):
        c = self.c
        if hasattr(c, "seed_jobs"):
            yield from c.seed_jobs(self.tier, self.seed, plan)
            return
        n = int(os.environ.get("VERIF_RUNS", plan["n_runs"]))
        for i in range(n):
            s = rng.derive(self.seed, c.PROP, i)
            args = {"seed": s, "tier": self.tier, "index": i}
            args.update(plan.get("args", {}))
            yield {"fn": c.FN_SEED, "args": args, "h": s % 4, "timeout": plan.get("timeout", 120)}

    # ------------------------------------------------------------------ minimise + report
    def run_spec(self, pool: poolmod.Pool, specs: list[dict]) -> list[dict | None]:
        jobs = [{"fn": self.c.FN_SPEC, "args": {"spec": s}, "h": s.get("hashseed"), "timeout": 120} for s in specs]
        envs = pool.map(jobs)
        return [e["result"] if e.get("status") == "ok" else None for e in envs]

    def minimise(self, pool: poolmod.Pool, spec: dict, cls: str, budget_s: float = 60.0) -> tuple[dict, int]:
        t_end = time.monotonic() + budget_s
        steps = 0
        while time.monotonic() < t_end:
            cands = self.c.shrink_candidates(spec)
            if not cands:
                break
            progressed = False
            chunk = 2 * len(pool.workers)
            for off in range(0, len(cands), chunk):
                if time.monotonic() > t_end:
                    break
                batch = cands[off : off + chunk]
                results = self.run_spec(pool, batch)
                hit = None
                for cand, res in zip(batch, results):
                    if res and any(vclass(v) == cls for v in res.get("violations") or []):
                        hit = cand
                        break
                if hit is not None:
                    spec = hit
                    steps += 1
                    progressed = True
                    break
            if not progressed:
                break
        return spec, steps

    def _finish(self, pool: poolmod.Pool, plan: dict) -> int:
        c = self.c
        rc = 0
        lines: list[str] = []
        for eid, n in sorted(self.known_hits.items()):
            e = self.known_entry[eid]
            lines.append(f"KNOWN-FINDING: property={c.PROP} {e['what']} (id={eid}, hit {n}x this run)")
        replay_dir = os.path.join(os.environ.get("VERIF_REPLAY_DIR") or os.path.join(VERIF, "replays"), c.PROP)
        finish_end = time.monotonic() + 3.0 * float(plan.get("minimise_s", 45))
        n_left = len(self.viol_by_class)
        for cls, rec in sorted(self.viol_by_class.items()):
            per_class = max(8.0, min(float(plan.get("minimise_s", 45)), (finish_end - time.monotonic()) / max(1, n_left)))
            n_left -= 1
            v, spec = rec["violation"], rec["spec"]
            os.makedirs(replay_dir, exist_ok=True)
            if spec is None:
                # wall-clock hang: the job itself is the replay
                path = os.path.join(replay_dir, f"hang-{rng.derive(cls, json.dumps(rec.get('job', {}), sort_keys=True)) % 10**8}.json")
                with open(path, "w") as f:
                    json.dump({"format": 1, "property": c.PROP, "expect": {"kind": v["kind"], "locus": v.get("locus", "")}, "job": rec.get("job")}, f, indent=1)
                lines.append(f"VIOLATION property={c.PROP} replay={path}")
                lines.append(f"  class={cls} detail={v.get('detail', '')[:300]}")
                rc = 1
                continue
            size0 = c.spec_size(spec) if hasattr(c, "spec_size") else None
            if hasattr(c, "pre_minimise"):
                spec = c.pre_minimise(spec, cls)
            if hasattr(c, "minimise"):
                mspec, steps = c.minimise(self, spec, cls, per_class)
            else:
                mspec, steps = self.minimise(pool, spec, cls, budget_s=per_class)
            if hasattr(c, "post_minimise"):
                mspec = c.post_minimise(mspec, cls)
            res = self.run_spec(pool, [mspec])[0]
            vv = [x for x in (res or {}).get("violations", []) if vclass(x) == cls]
            if not vv:
                # not reproducible on re-execution: a harness defect, never a VIOLATION
                self.harness_errors.append(f"violation class {cls} did not reproduce on re-execution of its own spec")
                continue
            mv = vv[0]
            replay = {
                "format": 1,
                "property": c.PROP,
                "seed": self.seed,
                "hashseed": mspec.get("hashseed"),
                "spec": mspec,
                "expect": {"kind": mv["kind"], "locus": mv.get("locus", "")},
                "detail": mv.get("detail", "")[:4000],
                "first_seen_detail": v.get("detail", "")[:2000],  # of the run that first showed this class, before minimisation
                "minimised_from": size0,
                "minimised_to": c.spec_size(mspec) if hasattr(c, "spec_size") else None,
                "shrink_steps": steps,
                "fingerprint": (res or {}).get("fingerprint"),
                "needs_fault": mv.get("needs_fault"),
            }
            name = f"{rng.derive(cls, json.dumps(mspec, sort_keys=True)) % 10**10:010d}.json"
            path = os.path.join(replay_dir, name)
            with open(path, "w") as f:
                json.dump(replay, f, indent=1)  # never sort keys: map order inside the spec (documents!) is significant
            ok = confirm_replay(c.PROP, path)
            if not ok:
                self.harness_errors.append(f"replay {path} did not reproduce class {cls} in a fresh interpreter")
                continue
            e = match_known(self.known, mv)
            if e is not None:
                lines.append(f"KNOWN-FINDING: property={c.PROP} {e['what']} (id={e['id']})")
                continue
            rc = 1
            lines.append(f"VIOLATION property={c.PROP} replay={path}")
            lines.append(f"  class={cls} seen={self.viol_counts[cls]}x detail={mv.get('detail', '')[:600]}")
            if v.get("detail", "")[:300] != mv.get("detail", "")[:300]:
                lines.append(f"  first-seen-detail={v.get('detail', '')[:600]}")
            self.reported.append({"class": cls, "replay": path, "detail": mv.get("detail", "")[:600]})
        if self.harness_errors:
            for h in self.harness_errors[:10]:
                lines.append(f"HARNESS-ERROR: {h[:1500]}")
            if rc == 0:
                rc = 2
        min_runs = plan.get("min_runs", 1)
        if self.runs < min_runs and rc == 0:
            lines.append(f"HARNESS-ERROR: only {self.runs} runs completed (< {min_runs})")
            rc = 2
        self.write_evidence(plan, rc)
        for ln in lines:
            print(ln, file=self.out)
        wall = time.monotonic() - self.t0
        print(
            f"[{c.PROP}] tier={self.tier} seed={self.seed} runs={self.runs} skipped={dict(self.skipped)} "
            f"distinct_states={len(self.states)} violations={len(self.reported)} known={sum(self.known_hits.values())} "
            f"wall={wall:.1f}s rc={rc}",
            file=self.out,
        )
        return rc

    def write_evidence(self, plan: dict, rc: int) -> None:
        c = self.c
        wall = time.monotonic() - self.t0
        cov: dict[str, Any] = {
            "evaluations": self.runs,
            "distinct_nontrivial": len(self.nontrivial),
            "rule": c.RULE,
            "samples": self.samples[:6] or ["<no run completed>"],
            "runs": self.runs,
            "runs_skipped": dict(self.skipped),
            "seeds_per_hour": int(self.runs / wall * 3600) if wall > 0 else 0,
            "simulated_time_s": round(self.sim_time, 3),
            "fault_counts": dict(sorted(self.agg_faults.items())),
            "probe_counts": dict(sorted(self.agg_probes.items())),
            "distinct_states": len(self.states),
            "distinct_states_by_kind": dict(collections.Counter(s.split("|", 1)[0] for s in self.states)),
            "distinct_states_measure": getattr(c, "STATE_MEASURE", ""),
            "real_components": getattr(c, "REAL", []),
            "stub_components": getattr(c, "STUB", []),
            "known_findings_hit": dict(self.known_hits),
            "violation_classes": {k: self.viol_counts[k] for k in self.viol_by_class},
            "harness_errors": len(self.harness_errors),
            "workers": len(self.pool.workers) if hasattr(self, "pool") else 0,
            "hashseeds": self.pool.hashseeds() if hasattr(self, "pool") else [],
            "exhaustive": False,
        }
        cov.update(self.extra_cov)
        ev = {
            "property_id": c.PROP,
            "tier": self.tier,
            "seed": self.seed,
            "level": c.LEVEL,
            "coverage": cov,
            "assumptions": getattr(c, "ASSUMPTIONS", []),
            "wall_s": round(wall, 2),
            "violations": len(self.reported),
        }
        evdir = os.environ.get("VERIF_EVIDENCE_DIR") or os.path.join(VERIF, "evidence")
        os.makedirs(evdir, exist_ok=True)
        path = os.path.join(evdir, f"{c.PROP}.json")
        tmp = path + ".tmp"
        with open(tmp, "w") as f:
            json.dump(ev, f, indent=1, sort_keys=True, default=str)
        os.replace(tmp, path)


def confirm_replay(prop: str, path: str) -> bool:
    """Replay in a fresh interpreter; must reproduce the expected class."""
    env = dict(os.environ)
    env.pop("VERIF_BUDGET_S", None)
    p = subprocess.run(
        [poolmod.PY, os.path.join(VERIF, "check"), prop, "--replay", path, "--quiet"],
        cwd=VERIF, capture_output=True, text=True, timeout=600, env=env,
    )
    return p.returncode == 1 and "REPRODUCED" in p.stdout


def replay(check: Any, path: str, quiet: bool = False) -> int:
    with open(path) as f:
        rp = json.load(f)
    spec = rp.get("spec")
    expect = rp["expect"]
    if spec is None:
        job = rp["job"]
        hs = [job.get("h") or 0]
        jobs = [job]
    else:
        hs = [spec.get("hashseed") or 0]
        jobs = [{"fn": check.FN_SPEC, "args": {"spec": spec}, "h": hs[0], "timeout": 120}]
    with poolmod.Pool(hs) as pool:
        env = pool.map(jobs)[0]
    if env.get("status") == "timeout" and expect["kind"] == "hang-wall":
        print("REPRODUCED hang-wall")
        print(f"VIOLATION property={check.PROP} replay={path}")
        return 1
    if env.get("status") != "ok":
        print(f"HARNESS-ERROR: replay job status {env.get('status')} {env.get('error', '')}")
        return 2
    res = env["result"]
    got = [v for v in res.get("violations", []) if v["kind"] == expect["kind"] and v.get("locus", "") == expect.get("locus", "")]
    if got:
        print(f"REPRODUCED {expect['kind']}|{expect.get('locus', '')} fingerprint={res.get('fingerprint')}")
        if not quiet:
            print(got[0].get("detail", "")[:3000])
        print(f"VIOLATION property={check.PROP} replay={path}")
        return 1
    print(f"NOT-REPRODUCED expected {expect} got {[vclass(v) for v in res.get('violations', [])]}")
    return 0


# ---------------------------------------------------------------------- generic JSON-tree shrinking
def tree_paths(x: Any, path: tuple = ()) -> list[tuple[tuple, int]]:
    """[(path, subtree_size)] for every non-root node."""
    out: list[tuple[tuple, int]] = []

    def size(v: Any) -> int:
        if isinstance(v, dict):
            return 1 + sum(size(u) for u in v.values())
        if isinstance(v, list):
            return 1 + sum(size(u) for u in v)
        return 1

    def walk(v: Any, p: tuple) -> None:
        if isinstance(v, dict):
            for k, u in v.items():
                out.append((p + (k,), size(u)))
                walk(u, p + (k,))
        elif isinstance(v, list):
            for i, u in enumerate(v):
                out.append((p + (i,), size(u)))
                walk(u, p + (i,))

    walk(x, path)
    return out


def tree_delete(x: Any, path: tuple) -> Any:
    import copy

    y = copy.deepcopy(x)
    cur = y
    for k in path[:-1]:
        cur = cur[k]
    del cur[path[-1]]
    return y


def tree_candidates(doc: Any, protect: Callable[[tuple], bool] | None = None, limit: int = 400) -> list[Any]:
    """Smaller variants of a JSON tree: delete one subtree, biggest subtrees first."""
    paths = tree_paths(doc)
    paths.sort(key=lambda ps: (-ps[1], len(ps[0])))
    out = []
    for p, _sz in paths:
        if protect is not None and protect(p):
            continue
        try:
            out.append(tree_delete(doc, p))
        except Exception:  # noqa: BLE001
            continue
        if len(out) >= limit:
            break
    return out
