"""Simulated API server behind the httpx transport seam (sync and async).

The generated client builds its own httpx.Client / AsyncClient (base_url, headers, cookies,
timeout, auth header: all real); only the transport is replaced.  The server attributes each
request to the call that caused it through a ContextVar (no wire marker), records it the way a
real server would see it, and answers according to the behaviour planned for that call:
status / media type / body / headers / virtual latency / transport fault.
"""
from __future__ import annotations

import asyncio
import contextvars
import urllib.parse
from typing import Any

import httpx

CURRENT_CALL: contextvars.ContextVar[int | None] = contextvars.ContextVar("verif_current_call", default=None)

THREAD_SCHED: Any = None  # set by the world while a group of caller threads runs (sim.threads.ThreadSched)

FAULT_EXC = {
    "connect-error": httpx.ConnectError,
    "read-error": httpx.ReadError,
    "remote-protocol-error": httpx.RemoteProtocolError,
    "write-error": httpx.WriteError,
}


class Server:
    def __init__(self) -> None:
        self.plans: dict[int, dict] = {}
        self.requests: list[dict] = []  # every request seen, in arrival order
        self.seq = 0
        self.events: list[str] = []
        self.sync_clock = 0.0  # virtual time consumed by blocking calls

    def plan(self, call_id: int, behaviour: dict) -> None:
        self.plans[call_id] = behaviour

    def _record(self, request: httpx.Request, content: bytes, call_id: int | None) -> dict:
        self.seq += 1
        url = request.url
        headers: dict[str, str] = {}
        dup: list[str] = []
        for k, v in request.headers.multi_items():
            lk = k.lower()
            if lk in headers:
                dup.append(lk)
                headers[lk] = headers[lk] + ", " + v
            else:
                headers[lk] = v
        rec = {
            "seq": self.seq,
            "call": call_id,
            "method": request.method,
            "path": urllib.parse.unquote(url.raw_path.split(b"?", 1)[0].decode("ascii")),
            "raw_target": url.raw_path.decode("ascii"),
            "raw_path": url.raw_path.split(b"?", 1)[0].decode("ascii"),
            "query": urllib.parse.parse_qsl(url.query.decode("ascii"), keep_blank_values=True),
            "headers": headers,
            "dup_headers": dup,
            "content": content,
            "timeout": dict(request.extensions.get("timeout") or {}),
            "host": url.host,
            "scheme": url.scheme,
        }
        self.requests.append(rec)
        self.events.append(f"req seq={self.seq} call={call_id} {request.method} {rec['raw_target']} len={len(content)}")
        return rec

    def _response(self, request: httpx.Request, b: dict) -> httpx.Response:
        headers = dict(b.get("headers") or {})
        if b.get("media_type") is not None:
            headers["content-type"] = b["media_type"]
        self.events.append(f"resp call={b.get('_call')} status={b['status']} len={len(b.get('content') or b'')}")
        return httpx.Response(b["status"], headers=headers, content=b.get("content") or b"", request=request)

    def _behaviour(self, call_id: int | None) -> dict:
        b = self.plans.get(call_id) if call_id is not None else None
        if b is None:
            b = {"status": 200, "content": b"{}", "media_type": "application/json", "latency": 0.0, "fault": None}
        b = dict(b)
        b["_call"] = call_id
        return b

    @staticmethod
    def _timeout_exceeded(rec: dict, latency: float) -> float | None:
        t = rec["timeout"].get("read")
        if t is not None and latency > float(t):
            return float(t)
        return None


class SimTransport(httpx.BaseTransport, httpx.AsyncBaseTransport):
    def __init__(self, server: Server) -> None:
        self.server = server

    # blocking variant: virtual time is a counter
    def handle_request(self, request: httpx.Request) -> httpx.Response:
        s = self.server
        call_id = CURRENT_CALL.get()
        content = request.read()
        rec = s._record(request, content, call_id)
        b = s._behaviour(call_id)
        lat = float(b.get("latency") or 0.0)
        if THREAD_SCHED is not None:
            THREAD_SCHED.yield_point("wire:0", p=0.5)  # the request is on the wire: another caller thread may run
        if b.get("fault") in FAULT_EXC:
            s.sync_clock += min(lat, 0.01)
            s.events.append(f"fault call={call_id} {b['fault']}")
            raise FAULT_EXC[b["fault"]](f"simulated {b['fault']}", request=request)
        to = s._timeout_exceeded(rec, lat)
        if to is not None:
            s.sync_clock += to
            s.events.append(f"fault call={call_id} read-timeout after {to}")
            raise httpx.ReadTimeout("simulated read timeout", request=request)
        s.sync_clock += lat
        return s._response(request, b)

    async def handle_async_request(self, request: httpx.Request) -> httpx.Response:
        s = self.server
        call_id = CURRENT_CALL.get()
        content = await request.aread()
        rec = s._record(request, content, call_id)
        b = s._behaviour(call_id)
        lat = float(b.get("latency") or 0.0)
        if b.get("fault") in FAULT_EXC:
            await asyncio.sleep(min(lat, 0.01))
            s.events.append(f"fault call={call_id} {b['fault']}")
            raise FAULT_EXC[b["fault"]](f"simulated {b['fault']}", request=request)
        to = s._timeout_exceeded(rec, lat)
        if to is not None:
            await asyncio.sleep(to)
            s.events.append(f"fault call={call_id} read-timeout after {to}")
            raise httpx.ReadTimeout("simulated read timeout", request=request)
        await asyncio.sleep(lat)
        return s._response(request, b)


def seeded_urandom(rng) -> Any:
    def urandom(n: int) -> bytes:
        return bytes(rng.getrandbits(8) for _ in range(n))

    return urandom
