"""Instance generator, reference decoder and argument builder for C03/C04.

* gen(schema) produces a schema-valid JSON value in which every leaf is a unique CANARY, so
  each byte seen on the wire is attributable to exactly one argument.
* expected_norms(schema, J) is the reference decoder: the set of acceptable normal forms of the
  value a generated client should hand back for JSON value J (DESIGN A.3).
* norm(x) maps what the generated client actually returned to the same normal form.
* py_value(schema, J, hint) builds the Python argument (model instance, Enum member, date,
  UUID, File, ...) from J using the generated package's own classes.
All of it is computed from the DOCUMENT, never from the generator's intermediate objects.
"""
from __future__ import annotations

import datetime
import enum
import io
import json
import typing
import uuid
from typing import Any


class Canary:
    """Unique leaves.  One counter per run; every kind derives a distinct value from it."""

    def __init__(self, rng, start: int = 0) -> None:
        self.rng = rng
        self.n = start

    def _next(self) -> int:
        self.n += 1
        return self.n

    def string(self, fancy: bool = True) -> str:
        n = self._next()
        if fancy and self.rng.random() < 0.04:
            return ""  # the empty string is a value too (falsy: `if x:` guards drop it)
        base = f"c{n}z" + "".join(self.rng.choice("abcdefghkmnpqrstuvwxy") for _ in range(4))
        if fancy:
            base += self.rng.choice(["", "", "", " sp", "-d", "_u", ".p", "~t", "é", "+p", "%25", "&a=b", "=e", ",c", ";s", "?q", "#h", "/s", "\"q", "'a", "\\b", "ü ñ"])
        return base

    def token(self) -> str:
        """URL/header/cookie-safe canary (unreserved characters only)."""
        n = self._next()
        return f"c{n}z" + "".join(self.rng.choice("abcdefghkmnpqrstuvwxy") for _ in range(4))

    def path_string(self) -> str:
        """A path-parameter value: half of them carry a character that is reserved in URLs (it must arrive percent-encoded
        INSIDE its slot).  Never a bare dot segment: '.' and '..' are removed by URL normalisation whatever the encoding."""
        return self.token() + self.rng.choice(["", "", "", "", "", "/s", "?q", "#h", "%25", "%", " sp", "é", ";s", "+p", "&a=b", "=e", ",c", ".p", "~t", "'a", ":c", "@a", "/../x"])

    def integer(self) -> int:
        n = self._next()
        if self.rng.random() < 0.04:
            return 0  # falsy, and a value like any other
        return 100_000 + 7 * n

    def number(self) -> float:
        n = self._next()
        if self.rng.random() < 0.04:
            return 0.0
        return float(200_000 + 3 * n) + 0.5

    def boolean(self) -> bool:
        self._next()
        return self.rng.random() < 0.5

    def date(self) -> str:
        return (datetime.date(2001, 1, 1) + datetime.timedelta(days=self._next())).isoformat()

    def datetime(self) -> str:
        return (datetime.datetime(2002, 2, 2, tzinfo=datetime.timezone.utc) + datetime.timedelta(seconds=61 * self._next())).isoformat()

    def uuid(self) -> str:
        return str(uuid.UUID(int=(0xABCDEF << 100) + self._next()))

    def bytes_(self) -> bytes:
        n = self._next()
        return f"BIN{n}:".encode() + bytes(self.rng.randrange(256) for _ in range(self.rng.randint(0, 24)))


# ---------------------------------------------------------------------- schema helpers
def resolve(schema: Any, doc: dict, limit: int = 20) -> dict:
    """Follow $ref / single-member allOf|oneOf|anyOf wrappers of a reference to the schema itself."""
    cur = schema
    nullable = False
    for _ in range(limit):
        if not isinstance(cur, dict):
            return {}
        if "$ref" in cur:
            name = cur["$ref"].rsplit("/", 1)[1]
            cur = ((doc.get("components") or {}).get("schemas") or {}).get(name, {})
            continue
        wrapped = [k for k in ("allOf", "oneOf", "anyOf") if cur.get(k)]
        if len(wrapped) == 1 and len(cur[wrapped[0]]) == 1 and not cur.get("properties") and "type" not in cur and "enum" not in cur:
            # a one-element wrapper (description / nullable around a reference) IS the wrapped schema
            nullable = nullable or bool(cur.get("nullable"))
            cur = cur[wrapped[0]][0]
            continue
        return dict(cur, nullable=True) if nullable and not cur.get("nullable") else cur
    return {}


def ref_name(schema: dict) -> str | None:
    if isinstance(schema, dict) and "$ref" in schema:
        return schema["$ref"].rsplit("/", 1)[1]
    return None


def types_of(s: dict) -> list[str]:
    t = s.get("type")
    if isinstance(t, list):
        return list(t)
    if isinstance(t, str):
        return [t]
    return []


def is_nullable(s: dict) -> bool:
    return bool(s.get("nullable")) or "null" in types_of(s) or (isinstance(s.get("enum"), list) and None in s["enum"])


def classify(schema: dict, doc: dict) -> str:
    """Kind of a schema as the property text talks about it."""
    s = resolve(schema, doc)
    if "enum" in s:
        return "enum"
    if "const" in s:
        return "const"
    if s.get("oneOf") or s.get("anyOf"):
        return "union"
    ts = [t for t in types_of(s) if t != "null"]
    if len(ts) > 1:
        return "union"
    if s.get("allOf"):
        return "model"
    t = ts[0] if ts else None
    if t == "object" or (t is None and s.get("properties")):
        return "model"
    if t == "array":
        return "array"
    if t == "string":
        f = s.get("format")
        return f if f in ("date", "date-time", "uuid", "binary") else "string"
    if t in ("integer", "number", "boolean"):
        return t
    if types_of(s) == ["null"]:
        return "null"
    return "any"


def model_properties(schema: dict, doc: dict, _seen: tuple = ()) -> tuple[dict[str, dict], set[str], Any]:
    """(properties, required, additionalProperties) of an object / allOf schema, parents first."""
    s = resolve(schema, doc)  # (a one-element wrapper around a reference resolves to the referenced model)
    props: dict[str, dict] = {}
    req: set[str] = set()
    addl: Any = s.get("additionalProperties")
    for m in s.get("allOf", []):
        key = json.dumps(m, sort_keys=True)
        if key in _seen:
            continue
        p2, r2, _a2 = model_properties(m, doc, _seen + (key,))
        props.update(p2)
        req |= r2
    props.update(s.get("properties") or {})
    req |= set(s.get("required") or [])
    return props, req, addl


def enforced_required(schema: dict, doc: dict, _seen: tuple = ()) -> set[str]:
    """Required names ANY decoder of this model is sure to insist on: those listed by the very member that declares the
    property.  A name that an allOf member merely requires while another member declares it (`allOf: [$ref Parent,
    {required: [p]}]`) is mandatory by JSON Schema, but whether generated code enforces it is C15's subject: acceptance
    models treat it as 'may be absent', generated instances always carry it."""
    s = resolve(schema, doc)
    out: set[str] = set()
    for m in s.get("allOf", []):
        key = json.dumps(m, sort_keys=True)
        if key in _seen:
            continue
        out |= enforced_required(m, doc, _seen + (key,))
    out |= set(s.get("required") or []) & set(s.get("properties") or {})
    return out


def union_members(s: dict) -> list[dict]:
    ms = list(s.get("anyOf") or []) + list(s.get("oneOf") or [])
    ts = types_of(s)
    if not ms and len(ts) > 1:
        base = {k: v for k, v in s.items() if k not in ("type", "default", "nullable")}
        ms = [dict(base, type=t) for t in ts]
    if s.get("nullable") and ms and not any(types_of(m) == ["null"] for m in ms if isinstance(m, dict)):
        ms = ms + [{"type": "null"}]
    return ms


def _constructs(schema: dict, doc: dict, depth: int = 0) -> bool:
    """Does the generated decoder CONSTRUCT values of this kind (and may therefore raise), as opposed to casting?"""
    k = classify(schema, doc)
    if k in ("model", "date", "date-time", "uuid", "enum", "const", "binary", "union"):
        return True
    if k == "array" and depth < 6:
        s = resolve(schema, doc)
        ch = list(s.get("prefixItems") or []) + ([s["items"]] if s.get("items") else [])
        return len(ch) > 1 or any(_constructs(x, doc, depth + 1) for x in ch)
    return False


def attempt_succeeds(member: dict, J: Any, doc: dict, depth: int = 0) -> bool:
    """Would the generated decoder's ATTEMPT at this schema succeed on J (i.e. not raise)?  A model of what the
    generated from_dict / _parse_* code does: plain kinds are cast (never raise), constructed kinds raise on
    incompatible values, required keys must be present, closed models silently drop unknown keys."""
    if depth > 8:
        return True
    s = resolve(member, doc)
    k = classify(member, doc)
    if J is None:
        if k == "union":
            return is_nullable(s) or any(attempt_succeeds(m, None, doc, depth + 1) for m in union_members(s))
        return is_nullable(s) or k in ("null", "any", "string", "integer", "number", "boolean")
    if k == "model":
        if not isinstance(J, dict):
            if J in ([], "", ()):
                J = {}  # from_dict starts with dict(src): dict([]) and dict("") are {} - no exception
            else:
                return False
        props, _req, addl = model_properties(member, doc)
        if not enforced_required(member, doc) <= set(J):
            return False
        for name, ps in props.items():
            if name in J and not attempt_succeeds(ps, J[name], doc, depth + 1):
                return False
        if isinstance(addl, dict) and addl and _constructs(addl, doc):
            for name, v in J.items():
                if name not in props and not attempt_succeeds(addl, v, doc, depth + 1):
                    return False
        return True
    if k == "null":
        return J is None
    if k == "array":
        ch = list(s.get("prefixItems") or []) + ([s["items"]] if s.get("items") else [])
        if not _constructs(member, doc):
            return True  # cast(list[...], value): anything goes
        if not isinstance(J, (list, str, dict)):
            return False  # `for x in value` raises for a number / bool
        # ... but ITERATES a string (characters) or a mapping (keys) without complaint
        for x in list(J):
            if len(ch) == 1:
                if not attempt_succeeds(ch[0], x, doc, depth + 1):
                    return False
            elif not any(attempt_succeeds(m, x, doc, depth + 1) for m in ch) and all(_constructs(m, doc) for m in ch):
                return False
        return True
    if k in ("date", "date-time"):
        if not isinstance(J, str):
            return False
        try:
            from dateutil.parser import isoparse

            isoparse(J)
            return True
        except Exception:  # noqa: BLE001
            return False
    if k == "uuid":
        if not isinstance(J, str):
            return False
        try:
            uuid.UUID(J)
            return True
        except Exception:  # noqa: BLE001
            return False
    if k == "binary":
        return isinstance(J, (bytes, dict))
    if k == "enum":
        return J in [v for v in s.get("enum", []) if v is not None]
    if k == "const":
        return J == s.get("const")
    if k == "union":
        ms = union_members(s)
        if any(attempt_succeeds(m, J, doc, depth + 1) for m in ms):
            return True
        return any(not _constructs(m, doc) for m in ms)  # an unconstructed member is the cast fallback
    return True  # string / integer / number / boolean / any: cast, never raises


def fails_robustly(member: dict, J: Any, doc: dict, depth: int = 0) -> bool:
    """Does the generated decoder's attempt at this schema CERTAINLY raise on J?  Only reasons that do not depend on
    fine points of the generated code count: a required key is missing; a present value of a constructed scalar kind
    (uuid, date, date-time, enum, const) is of the wrong type or unparseable; a present value of a model kind is
    not a mapping (and not empty).  Everything about arrays and nulls is treated as 'may succeed'."""
    if depth > 8 or J is None:
        return False
    s = resolve(member, doc)
    k = classify(member, doc)
    if is_nullable(s):
        return False  # nullable => generated as a union with None, whose unconstructed member is a cast fallback: never raises
    if k == "model":
        if not isinstance(J, dict):
            return _dict_ctor_fails(J)  # from_dict starts with dict(src)
        props, _req, addl = model_properties(member, doc)
        if not enforced_required(member, doc) <= set(J):
            return True
        for name, ps in props.items():
            if name in J and J[name] is not None and classify(ps, doc) in ("model", "uuid", "date", "date-time", "enum", "const", "union") \
                    and fails_robustly(ps, J[name], doc, depth + 1):
                return True
        if isinstance(addl, dict) and addl and classify(addl, doc) in ("model", "uuid", "date", "date-time", "enum", "const"):
            for name, v in J.items():
                if name not in props and v is not None and fails_robustly(addl, v, doc, depth + 1):
                    return True
        return False
    if k in ("date", "date-time"):
        if not isinstance(J, str):
            return True
        try:
            from dateutil.parser import isoparse

            isoparse(J)
            return False
        except Exception:  # noqa: BLE001
            return True
    if k == "uuid":
        if not isinstance(J, str):
            return True
        try:
            uuid.UUID(J)
            return False
        except Exception:  # noqa: BLE001
            return True
    if k == "enum":
        try:
            return J not in [v for v in s.get("enum", []) if v is not None]
        except TypeError:
            return True
    if k == "const":
        return J != s.get("const")
    if k == "union":
        ms = union_members(s)
        return bool(ms) and all(_guard_rejects(m, J, doc) or fails_robustly(m, J, doc, depth + 1) for m in ms) and all(_constructs(m, doc) for m in ms)
    return False  # plain kinds are cast; arrays: not judged


def _dict_ctor_fails(J: Any) -> bool:
    """Does dict(J) certainly raise?  It does not for [] / "" / (), nor for a sequence whose elements all have exactly two
    items: dict([{"a": 1, "b": 2}]) == {"a": "b"} (seen: a one-element list holding a two-key object was 'decoded')."""
    if isinstance(J, (bool, int, float)):
        return True
    if isinstance(J, str):
        return len(J) > 0
    if isinstance(J, (list, tuple)):
        return any(not (isinstance(x, (str, list, tuple, dict)) and len(x) == 2) for x in J)
    return False


def _guard_rejects(member: dict, J: Any, doc: dict) -> bool:
    """Inside a union every constructed member is guarded by a type check before its attempt."""
    k = classify(member, doc)
    if k == "model":
        return not isinstance(J, dict)
    if k == "array":
        return not isinstance(J, list)
    if k in ("date", "date-time", "uuid"):
        return not isinstance(J, str)
    if k == "null":
        return J is not None
    if k == "enum":
        vals = [v for v in resolve(member, doc).get("enum", []) if v is not None]
        return bool(vals) and not isinstance(J, type(vals[0]))
    return False


def loosely_accepts(member: dict, J: Any, doc: dict) -> bool:
    """May the generated decoder, trying this union member, take J?  True unless the member's type guard rejects J
    or its attempt certainly raises (fails_robustly).  Used both to avoid generating ambiguous values (an EARLIER
    member that may take the value) and to list the acceptable decodings of a value."""
    k = classify(member, doc)
    if k == "null":
        return J is None
    if k in ("string", "binary"):
        return isinstance(J, str)
    if k == "integer":
        return isinstance(J, int) and not isinstance(J, bool)
    if k == "number":
        return isinstance(J, (int, float)) and not isinstance(J, bool)
    if k == "boolean":
        return isinstance(J, bool)
    if k == "union":
        return any(loosely_accepts(m, J, doc) for m in union_members(resolve(member, doc)))
    if _guard_rejects(member, J, doc):
        return False
    return not fails_robustly(member, J, doc)


def conforms(schema: dict | None, J: Any, doc: dict, depth: int = 0) -> bool:
    """Is J an instance the workload could have generated for this schema?  Used on REPLAYED / SHRUNK specs: when
    delta debugging shrinks the document under explicit arguments, a call whose arguments no longer fit the shrunk
    schema says nothing about the generator and is skipped."""
    if schema is None or depth > 12:
        return True
    s = resolve(schema, doc)
    k = classify(schema, doc)
    if J is None:
        return True
    if k == "model":
        if not isinstance(J, dict):
            return False
        props, req, addl = model_properties(schema, doc)
        if not req <= set(J):
            return False
        for name, v in J.items():
            if name in props:
                if not conforms(props[name], v, doc, depth + 1):
                    return False
            elif addl is False:
                return False
            elif isinstance(addl, dict) and addl and not conforms(addl, v, doc, depth + 1):
                return False
        return True
    if k == "array":
        ch = list(s.get("prefixItems") or []) + ([s["items"]] if s.get("items") else [])
        return isinstance(J, list) and all(any(conforms(m, x, doc, depth + 1) for m in ch) for x in J) if ch else isinstance(J, list)
    if k == "union":
        return any(conforms(m, J, doc, depth + 1) for m in union_members(s))
    if k in ("date", "date-time", "uuid"):
        return isinstance(J, str) and not fails_robustly(schema, J, doc)
    if k == "string":
        return isinstance(J, str)
    if k == "integer":
        return isinstance(J, int) and not isinstance(J, bool)
    if k == "number":
        return isinstance(J, (int, float)) and not isinstance(J, bool)
    if k == "boolean":
        return isinstance(J, bool)
    if k == "enum":
        return J in s.get("enum", [])
    if k == "const":
        return J == s.get("const")
    if k == "binary":
        return isinstance(J, dict) and "__bytes__" in J
    return True


# ---------------------------------------------------------------------- instance generation
class Unsatisfiable(Exception):
    """No finite instance within the depth bound (e.g. mutually required models)."""


def gen(schema: dict, doc: dict, c: Canary, depth: int = 0, url_safe: bool = False, allow_null: bool = True) -> Any:
    r = c.rng
    if depth > 16:
        raise Unsatisfiable()
    s = resolve(schema, doc)
    k = classify(schema, doc)
    if allow_null and is_nullable(s) and k not in ("union", "array") and r.random() < 0.2:
        return None
    if k == "enum":
        vals = [v for v in s["enum"] if v is not None]
        return r.choice(vals)
    if k == "const":
        return s["const"]
    if k == "union":
        members = union_members(s)
        order = list(range(len(members)))
        r.shuffle(order)
        for m in order:
            mem = members[m]
            if types_of(resolve(mem, doc)) == ["null"] and not allow_null:
                continue
            J = gen(mem, doc, c, depth + 1, url_safe, allow_null)
            # the decoder tries members in order: never hand it a value an EARLIER member would (mis)take
            if any(loosely_accepts(members[e], J, doc) for e in range(m)):
                continue
            return J
        return gen(members[0], doc, c, depth + 1, url_safe, allow_null)
    if k == "model":
        props, req, addl = model_properties(schema, doc)
        out: dict[str, Any] = {}
        for name, ps in props.items():
            # array-typed properties are always present: the generated from_dict turns an absent optional list of
            # constructible items into [] (C02/C10's subject), which would make J a wrong description of the argument
            is_arr = classify(ps, doc) == "array"
            if name in req or is_arr or (depth < 3 and r.random() < 0.6):
                if depth >= 5 and name not in req and not is_arr:
                    continue
                out[name] = gen(ps, doc, c, depth + 1, url_safe)
        if addl is not False and depth < 3 and r.random() < 0.3 and not (isinstance(addl, dict) and not addl):
            for i in range(r.randint(1, 2)):
                key = f"extra_{c.token()}"
                if isinstance(addl, dict) and addl:
                    out[key] = gen(addl, doc, c, depth + 2, url_safe)
                else:
                    out[key] = r.choice([c.string(), c.integer(), [c.string()], {"n": c.integer()}])
        return out
    if k == "array":
        n = r.choice([0, 1, 2, 3]) if depth < 3 else (r.choice([0, 1]) if depth < 5 else 0)
        pre = s.get("prefixItems") or []
        items = s.get("items")
        choices = list(pre) + ([items] if items else [])
        if not choices:
            return []
        if len(choices) == 1:
            return [gen(choices[0], doc, c, depth + 1, url_safe) for _ in range(n)]
        # the generator models prefixItems + items as anyOf of all of them
        out_l = []
        for _ in range(n):
            order = list(range(len(choices)))
            r.shuffle(order)
            m = order[0]
            J = gen(choices[m], doc, c, depth + 1, url_safe)
            if any(loosely_accepts(choices[e], J, doc) for e in range(m)):
                J = gen(choices[0], doc, c, depth + 1, url_safe)
            out_l.append(J)
        return out_l
    if k == "string":
        if url_safe == "path":
            return c.path_string()
        return c.token() if url_safe else c.string()
    if k == "integer":
        return c.integer()
    if k == "number":
        return c.number()
    if k == "boolean":
        return c.boolean()
    if k == "date":
        return c.date()
    if k == "date-time":
        return c.datetime()
    if k == "uuid":
        return c.uuid()
    if k == "binary":
        return {"__bytes__": c.bytes_().hex()}
    if k == "null":
        return None
    return r.choice([c.string(), c.integer(), {"any": c.string()}, [c.integer()]])


# ---------------------------------------------------------------------- reference decoder (normal forms)
def freeze(x: Any) -> Any:
    if isinstance(x, dict):
        return ("{}", tuple(sorted((k, freeze(v)) for k, v in x.items())))
    if isinstance(x, (list, tuple)):
        return ("[]", tuple(freeze(v) for v in x))
    if isinstance(x, float) and x == int(x):
        return ("num", int(x))
    if isinstance(x, bool):
        return ("bool", x)
    if isinstance(x, int):
        return ("num", x)
    return x


def expected_norms(schema: dict | None, J: Any, doc: dict, literal_enums: bool = False) -> list[Any]:
    """Acceptable normal forms for decoding J under schema (a list; usually one element)."""
    if schema is None:
        return [None]
    s = resolve(schema, doc)
    k = classify(schema, doc)
    if J is None and (is_nullable(s) or k in ("null", "any")):
        return [None]
    if k == "union":
        out = []
        for m in union_members(s):
            if loosely_accepts(m, J, doc):
                out.extend(expected_norms(m, J, doc, literal_enums))
        return out or [("no-member-accepts", freeze(J))]
    if k == "model":
        props, _req, addl = model_properties(schema, doc)
        # the re-encoded dict must equal J: nested values are compared through their own JSON form
        return [("model", freeze(J))]
    if k == "array":
        pre = s.get("prefixItems") or []
        items = s.get("items")
        choices = list(pre) + ([items] if items else [])
        if len(choices) == 1:
            alts = [expected_norms(choices[0], x, doc, literal_enums) for x in J]
        else:
            alts = []
            for x in J:
                a: list[Any] = []
                for m in choices:
                    if loosely_accepts(m, x, doc):
                        a.extend(expected_norms(m, x, doc, literal_enums))
                alts.append(a or [("no-member-accepts", freeze(x))])
        # cartesian product kept small: take first alternative per element, plus flag alternatives
        return [("list", tuple(a[0] for a in alts))] + ([("list-alts", tuple(tuple(a) for a in alts))] if any(len(a) > 1 for a in alts) else [])
    if k == "enum":
        return [("enum", J), freeze(J)] if literal_enums else [("enum", J)]
    if k == "const":
        return [freeze(J)]
    if k == "date":
        return [("date", J)]
    if k == "date-time":
        return [("dt", J)]
    if k == "uuid":
        return [("uuid", J)]
    if k == "binary":
        return [("file", J["__bytes__"] if isinstance(J, dict) else J)]
    if k in ("integer", "number"):
        return [freeze(J)]
    if k == "any":
        return [freeze(J)]
    return [freeze(J)]


def norm(x: Any, models_prefix: str) -> Any:
    """Normal form of what the generated client returned."""
    if isinstance(x, enum.Enum):
        return ("enum", x.value)
    if x is None or isinstance(x, (bool, str)):
        return freeze(x)
    if isinstance(x, datetime.datetime):
        return ("dt", x.isoformat())
    if isinstance(x, datetime.date):
        return ("date", x.isoformat())
    if isinstance(x, uuid.UUID):
        return ("uuid", str(x))
    if isinstance(x, (int, float)):
        return freeze(x)
    if isinstance(x, list):
        return ("list", tuple(norm(v, models_prefix) for v in x))
    if hasattr(x, "payload") and hasattr(x, "to_tuple"):
        p = x.payload
        try:
            pos = p.tell()
            data = p.read()
            p.seek(pos)
        except Exception:  # noqa: BLE001
            data = b""
        return ("file", data.hex())
    if hasattr(x, "to_dict") and hasattr(type(x), "from_dict"):
        mod = type(x).__module__
        if not mod.startswith(models_prefix):
            return ("foreign-model", mod)
        return ("model", freeze(x.to_dict()))
    if isinstance(x, dict):
        return freeze(x)
    return ("unknown", repr(x)[:80])


def _no_empty_lists(x: Any) -> Any:
    """A model's re-encoded form modulo 'key absent' == 'key: []': the generated from_dict turns an ABSENT optional list of
    constructible items into [] (C02 / C10's subject, not claimed).  The instance generator keeps such keys present in the
    values it builds for a model, but a value meant for one union member may be taken by another, all-optional one."""
    if isinstance(x, tuple) and len(x) == 2 and x[0] == "{}":
        return ("{}", tuple((k, _no_empty_lists(v)) for k, v in x[1] if v != ("[]", ())))
    if isinstance(x, tuple):
        return tuple(_no_empty_lists(v) for v in x)
    return x


def norm_matches(actual: Any, expected: list[Any]) -> bool:
    actual = _no_empty_lists(actual)
    expected = [_no_empty_lists(e) for e in expected]
    for e in expected:
        if actual == e:
            return True
        if isinstance(e, tuple) and e and e[0] == "list-alts" and isinstance(actual, tuple) and actual and actual[0] == "list":
            if len(actual[1]) == len(e[1]) and all(a in alts for a, alts in zip(actual[1], e[1])):
                return True
    return False


# ---------------------------------------------------------------------- Python argument construction
def strip_hint(hint: Any) -> Any:
    """Drop Unset / None from a Union annotation; returns the remaining member (or a tuple of members)."""
    origin = typing.get_origin(hint)
    if origin is typing.Union:
        args = [a for a in typing.get_args(hint) if a is not type(None) and getattr(a, "__name__", "") != "Unset"]
        if len(args) == 1:
            return args[0]
        return tuple(args)
    return hint


def _find_class(hint: Any, pred) -> Any:
    if hint is None:
        return None
    h = strip_hint(hint)
    cands = h if isinstance(h, tuple) else (h,)
    found = [c_ for c_ in cands if isinstance(c_, type) and pred(c_)]
    if len(found) == 1:
        return found[0]
    return None  # none, or several candidates: never guess which class an argument belongs to


CLASS_OVERRIDES: dict[str, dict] = {}  # config class_overrides of the world being run (set by the check)


def _class_for(models: Any, name: str) -> Any:
    """The generated class of a component: its own name, or the class_name the configuration overrides it with."""
    cname = (CLASS_OVERRIDES.get(name) or {}).get("class_name") or name
    return getattr(models, cname, None)


def py_value(schema: dict, J: Any, doc: dict, models: Any, hint: Any = None, file_cls: Any = None, literal_enums: bool = False) -> Any:
    """Python argument for JSON value J.  `models` is the generated <pkg>.models module, `hint` the
    annotation at the point of use (needed for inline objects and inline enums)."""
    if J is None:
        return None
    s = resolve(schema, doc)
    k = classify(schema, doc)
    name = ref_name(schema)
    cur = schema
    for _ in range(6):  # through one-element wrappers
        if name is not None or not isinstance(cur, dict):
            break
        nxt = None
        for key in ("allOf", "oneOf", "anyOf"):
            if len(cur.get(key) or []) == 1 and not cur.get("properties") and "type" not in cur:
                nxt = cur[key][0]
        if nxt is None:
            break
        cur = nxt
        name = ref_name(cur)
    if name is not None:
        # a reference to a component that is itself an alias of another component
        tgt = ((doc.get("components") or {}).get("schemas") or {}).get(name)
        hops = 0
        while isinstance(tgt, dict) and hops < 6 and _class_for(models, name) is None:
            nm2 = ref_name(tgt)
            if nm2 is None:
                break
            name, tgt, hops = nm2, ((doc.get("components") or {}).get("schemas") or {}).get(nm2), hops + 1
    if k == "model":
        cls = _class_for(models, name) if name else None
        if cls is None:
            cls = _find_class(hint, lambda t: hasattr(t, "from_dict"))
        if cls is None:
            raise LookupError(f"no generated class for inline object (hint={hint!r})")
        obj = cls.from_dict(_debin(J))
        _attach_file_meta(obj, J)
        return obj
    if k == "enum":
        if literal_enums:
            return J
        cls = _class_for(models, name) if name else None
        if cls is None:
            cls = _find_class(hint, lambda t: issubclass(t, enum.Enum))
        if cls is None:
            raise LookupError(f"no generated Enum class (hint={hint!r})")
        return cls(J)
    if k == "array":
        pre = s.get("prefixItems") or []
        items = s.get("items")
        choices = list(pre) + ([items] if items else [])
        h = strip_hint(hint) if hint is not None else None
        inner_hint = None
        if h is not None and not isinstance(h, tuple) and typing.get_origin(h) is list:
            inner_hint = typing.get_args(h)[0]
        out = []
        for x in J:
            m = next((mm for mm in choices if loosely_accepts(mm, x, doc)), choices[0])
            out.append(py_value(m, x, doc, models, inner_hint, file_cls, literal_enums))
        return out
    if k == "union":
        for m in union_members(s):
            if loosely_accepts(m, J, doc):
                return py_value(m, J, doc, models, hint, file_cls, literal_enums)
        return J
    if k == "date":
        return datetime.date.fromisoformat(J)
    if k == "date-time":
        return datetime.datetime.fromisoformat(J)
    if k == "uuid":
        return uuid.UUID(J)
    if k == "binary":
        data = bytes.fromhex(J["__bytes__"])
        if file_cls is None:
            raise LookupError("File class needed")
        return file_cls(payload=io.BytesIO(data), file_name=J.get("file_name"), mime_type=J.get("mime_type"))
    return J


def _debin(J: Any) -> Any:
    """Binary leaves ({"__bytes__": hex}) as the bytes from_dict expects for a file property."""
    if isinstance(J, dict):
        if "__bytes__" in J:
            return bytes.fromhex(J["__bytes__"])
        return {k: _debin(v) for k, v in J.items()}
    if isinstance(J, list):
        return [_debin(v) for v in J]
    return J


def _attach_file_meta(obj: Any, J: Any) -> None:
    """from_dict cannot carry file names / mime types; set them on the File attributes afterwards."""
    if not isinstance(J, dict):
        return
    metas = {v["__bytes__"]: v for v in J.values() if isinstance(v, dict) and "__bytes__" in v}
    if not metas:
        return
    for name in dir(obj):
        if name.startswith("_"):
            continue
        try:
            val = getattr(obj, name)
        except Exception:  # noqa: BLE001
            continue
        if hasattr(val, "payload") and hasattr(val, "to_tuple"):
            data = val.payload.getvalue() if hasattr(val.payload, "getvalue") else b""
            m = metas.get(data.hex())
            if m:
                val.file_name = m.get("file_name")
                val.mime_type = m.get("mime_type")


def strip_bytes(J: Any) -> Any:
    """JSON-comparable view of an instance (binary leaves as hex markers are kept)."""
    return J
