"""Worker interpreter: one per (hash seed, slot).  Reads JSON jobs on stdin, runs each in a
forked child with its own sandbox directory, writes one JSON result line per job.

The worker is exec'd by sim.pool with a fully specified environment (PYTHONHASHSEED, TZ,
LC_ALL, PATH, HOME, ...).  Fork gives every run a pristine copy of the warmed interpreter, so
nothing leaks from run to run, a hang can be killed, and packages imported by a run vanish
with the child.
"""
from __future__ import annotations

import importlib
import json
import os
import select
import shutil
import signal
import sys
import time
import traceback

SHM = os.environ.get("VERIF_SHM", "/dev/shm")


def _resolve(fn: str):
    mod, _, name = fn.partition(":")
    return getattr(importlib.import_module(mod), name)


def _child(job: dict, wfd: int, sandbox: str) -> None:
    try:
        os.makedirs(sandbox, exist_ok=True)
        os.environ["HOME"] = sandbox
        os.chdir(sandbox)
        fn = _resolve(job["fn"])
        res = fn(job.get("args", {}), sandbox)
        out = {"id": job["id"], "status": "ok", "result": res}
    except BaseException as e:  # noqa: BLE001 - a harness failure, reported as such
        out = {
            "id": job["id"],
            "status": "harness-exception",
            "error": f"{type(e).__name__}: {e}",
            "traceback": traceback.format_exc()[-4000:],
        }
    try:
        data = json.dumps(out).encode()
    except Exception as e:  # noqa: BLE001
        data = json.dumps({"id": job["id"], "status": "harness-exception", "error": f"unserialisable result: {e}"}).encode()
    try:
        off = 0
        while off < len(data):
            off += os.write(wfd, data[off : off + 65536])
    finally:
        os._exit(0)


def _run_job(job: dict, seq: int) -> dict:
    sandbox = os.path.join(SHM, f"verif-{os.getpid()}-{seq}")
    rfd, wfd = os.pipe()
    pid = os.fork()
    if pid == 0:
        os.close(rfd)
        try:
            # a child never talks on the worker's result channel
            signal.signal(signal.SIGTERM, signal.SIG_DFL)
        except Exception:  # noqa: BLE001
            pass
        _child(job, wfd, sandbox)
        os._exit(0)
    os.close(wfd)
    timeout = float(job.get("timeout", 120))
    deadline = time.monotonic() + timeout
    chunks = []
    timed_out = False
    while True:
        left = deadline - time.monotonic()
        if left <= 0:
            timed_out = True
            break
        r, _, _ = select.select([rfd], [], [], min(left, 5.0))
        if not r:
            continue
        b = os.read(rfd, 1 << 20)
        if not b:
            break
        chunks.append(b)
    os.close(rfd)
    if timed_out:
        try:
            os.kill(pid, signal.SIGKILL)
        except ProcessLookupError:
            pass
    _, status = os.waitpid(pid, 0)
    shutil.rmtree(sandbox, ignore_errors=True)
    if timed_out:
        return {"id": job["id"], "status": "timeout", "timeout_s": timeout}
    raw = b"".join(chunks)
    if not raw:
        return {"id": job["id"], "status": "died", "wait_status": status}
    try:
        return json.loads(raw)
    except ValueError:
        return {"id": job["id"], "status": "died", "wait_status": status, "raw": raw[:200].decode("latin1")}


def main() -> None:
    repo = os.environ.get("VERIF_REPO", "/repo")
    verif = os.path.dirname(os.path.dirname(os.path.abspath(__file__)))
    for p in (verif, repo):
        if p in sys.path:
            sys.path.remove(p)
    sys.path.insert(0, verif)
    sys.path.insert(0, repo)
    out = os.fdopen(os.dup(1), "w", buffering=1)
    devnull = os.open(os.devnull, os.O_WRONLY)
    os.dup2(devnull, 1)
    if os.environ.get("VERIF_WORKER_QUIET", "1") == "1":
        os.dup2(devnull, 2)
    sys.stdout = open(os.devnull, "w")  # noqa: SIM115
    from sim import genrun

    genrun.warm_up()
    import glob

    for path in sorted(glob.glob(os.path.join(verif, "checks", "c*.py"))):
        try:
            importlib.import_module("checks." + os.path.basename(path)[:-3])
        except Exception:  # noqa: BLE001 - reported when the job runs
            pass
    import gc

    gc.collect()
    gc.freeze()
    out.write(json.dumps({"ready": True, "hashseed": os.environ.get("PYTHONHASHSEED"), "pid": os.getpid()}) + "\n")
    seq = 0
    for line in sys.stdin:
        line = line.strip()
        if not line:
            continue
        job = json.loads(line)
        if job.get("fn") == "__exit__":
            break
        seq += 1
        res = _run_job(job, seq)
        out.write(json.dumps(res) + "\n")
        out.flush()


if __name__ == "__main__":
    main()
