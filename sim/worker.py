"""Worker interpreter: one per (hash seed, slot).  Reads JSON jobs on stdin, runs each in a
forked child with its own sandbox directory, writes one JSON result line per job.

The worker is exec'd by sim.pool with a fully specified environment (PYTHONHASHSEED, TZ,
LC_ALL, PATH, HOME, ...).  Fork gives every run a pristine copy of the warmed interpreter, so
nothing leaks from run to run, a hang can be killed, and packages imported by a run vanish
with the child.
"""
from __future__ import annotations

import importlib
import json
import os
import re
import select
import shutil
import signal
import sys
import time
import traceback

SHM = os.environ.get("VERIF_SHM", "/dev/shm")


def _resolve(fn: str):
    mod, _, name = fn.partition(":")
    return getattr(importlib.import_module(mod), name)


def _child(line: str, wfd: int, sandbox: str) -> None:
    job = {"id": None}
    try:
        job = json.loads(line)  # (parsed HERE, not in the parent: see _run_job)
        os.makedirs(sandbox, exist_ok=True)
        os.environ["HOME"] = sandbox
        os.chdir(sandbox)
        fn = _resolve(job["fn"])
        res = fn(job.get("args", {}), sandbox)
        out = {"id": job["id"], "status": "ok", "result": res}
    except BaseException as e:  # noqa: BLE001 - a harness failure, reported as such
        out = {
            "id": job["id"],
            "status": "harness-exception",
            "error": f"{type(e).__name__}: {e}",
            "traceback": traceback.format_exc()[-4000:],
        }
    try:
        data = json.dumps(out).encode()
    except Exception as e:  # noqa: BLE001
        data = json.dumps({"id": job["id"], "status": "harness-exception", "error": f"unserialisable result: {e}"}).encode()
    try:
        off = 0
        while off < len(data):
            off += os.write(wfd, data[off : off + 65536])
    finally:
        os._exit(0)


_ID_RE = re.compile(r'"id": (\d+)')
_TIMEOUT_RE = re.compile(r'"timeout": (\d+(?:\.\d+)?)')


def _run_job(line: str, seq: int) -> bytes:
    """Fork a child for one job and return its result envelope as raw JSON bytes.

    The parent never parses the job nor the result: between two jobs it allocates next to nothing, so every run forks from
    (as good as) the same heap state and what a run allocates - hence which freed blocks later objects reuse, hence anything
    keyed by id() - is a function of the job alone, not of the jobs this worker happened to serve before."""
    ids = _ID_RE.findall(line)
    jid = int(ids[-1]) if ids else -1  # (the pool adds "id" last)
    m = _TIMEOUT_RE.search(line)
    timeout = float(m.group(1)) if m else 120.0
    sandbox = os.path.join(SHM, f"verif-{os.getpid():07d}-{seq:07d}")
    rfd, wfd = os.pipe()
    pid = os.fork()
    if pid == 0:
        os.close(rfd)
        try:
            # a child never talks on the worker's result channel
            signal.signal(signal.SIGTERM, signal.SIG_DFL)
        except Exception:  # noqa: BLE001
            pass
        _child(line, wfd, sandbox)
        os._exit(0)
    os.close(wfd)
    deadline = time.monotonic() + timeout
    chunks = []
    timed_out = False
    while True:
        left = deadline - time.monotonic()
        if left <= 0:
            timed_out = True
            break
        r, _, _ = select.select([rfd], [], [], min(left, 5.0))
        if not r:
            continue
        b = os.read(rfd, 1 << 20)
        if not b:
            break
        chunks.append(b)
    os.close(rfd)
    if timed_out:
        try:
            os.kill(pid, signal.SIGKILL)
        except ProcessLookupError:
            pass
    _, status = os.waitpid(pid, 0)
    shutil.rmtree(sandbox, ignore_errors=True)
    if timed_out:
        return json.dumps({"id": jid, "status": "timeout", "timeout_s": timeout}).encode()
    raw = b"".join(chunks)
    if not raw or not raw.startswith(b"{") or not raw.rstrip().endswith(b"}") or b"\n" in raw.strip():
        return json.dumps({"id": jid, "status": "died", "wait_status": status, "raw": raw[:200].decode("latin1")}).encode()
    return raw.strip()


def main() -> None:
    repo = os.environ.get("VERIF_REPO", "/repo")
    verif = os.path.dirname(os.path.dirname(os.path.abspath(__file__)))
    for p in (verif, repo):
        if p in sys.path:
            sys.path.remove(p)
    sys.path.insert(0, verif)
    sys.path.insert(0, repo)
    out = os.fdopen(os.dup(1), "w", buffering=1)
    outb = os.fdopen(os.dup(1), "wb")
    devnull = os.open(os.devnull, os.O_WRONLY)
    os.dup2(devnull, 1)
    if os.environ.get("VERIF_WORKER_QUIET", "1") == "1":
        os.dup2(devnull, 2)
    sys.stdout = open(os.devnull, "w")  # noqa: SIM115
    from sim import genrun

    genrun.warm_up()
    import glob

    for path in sorted(glob.glob(os.path.join(verif, "checks", "c*.py"))):
        try:
            importlib.import_module("checks." + os.path.basename(path)[:-3])
        except Exception:  # noqa: BLE001 - reported when the job runs
            pass
    import gc

    gc.collect()
    gc.freeze()
    out.write(json.dumps({"ready": True, "hashseed": os.environ.get("PYTHONHASHSEED"), "pid": os.getpid()}) + "\n")
    seq = 0
    for line in sys.stdin:
        line = line.strip()
        if not line:
            continue
        if '"fn": "__exit__"' in line:
            break
        seq += 1
        res = _run_job(line, seq)
        outb.write(res + b"\n")
        outb.flush()


if __name__ == "__main__":
    main()
