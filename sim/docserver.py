"""Document-URL seam: httpx.get is replaced by a function that runs a REAL httpx.Client over a
simulated transport.  The server and the network are the stub: status, headers, body bytes,
virtual latency versus the timeout the generator passed, and only exceptions the real httpx
stack can raise from httpx.get."""
from __future__ import annotations

import contextlib
from typing import Any, Iterator

import httpx

NET_FAULTS = [
    "connect-error", "connect-timeout", "read-timeout", "remote-protocol-error", "mid-body-protocol-error",
    "bad-content-encoding", "status-404-html", "status-500-html", "redirect-301", "slow-but-in-time",
    "write-error", "read-error", "pool-timeout", "proxy-error", "unsupported-protocol", "empty-200",
]


class _FailingStream(httpx.SyncByteStream):
    def __init__(self, data: bytes, request: httpx.Request) -> None:
        self.data = data
        self.request = request

    def __iter__(self) -> Iterator[bytes]:
        yield self.data[: len(self.data) // 2]
        raise httpx.RemoteProtocolError("peer closed connection without sending complete message body", request=self.request)


class DocServerTransport(httpx.BaseTransport):
    def __init__(self, body: bytes, content_type: str | None, fault: str | None, log: list[str]) -> None:
        self.body = body
        self.content_type = content_type
        self.fault = fault
        self.log = log

    def handle_request(self, request: httpx.Request) -> httpx.Response:
        timeout = request.extensions.get("timeout", {})
        self.log.append(f"net request {request.method} {request.url} timeout={sorted(timeout.items())}")
        # what httpcore (the real transport) does with a request it cannot route, before any server is involved
        if request.url.scheme not in ("http", "https"):
            if not request.url.scheme:
                raise httpx.UnsupportedProtocol("Request URL is missing an 'http://' or 'https://' protocol.", request=request)
            raise httpx.UnsupportedProtocol(f"Request URL has an unsupported protocol '{request.url.scheme}://'.", request=request)
        if not request.url.host:
            raise httpx.ConnectError("[Errno -2] Name or service not known", request=request)
        f = self.fault
        headers = {}
        if self.content_type is not None:
            headers["content-type"] = self.content_type
        if f == "connect-error":
            raise httpx.ConnectError("[Errno 111] Connection refused", request=request)
        if f == "connect-timeout":
            # virtual latency above the connect timeout the generator passed
            self.log.append(f"net virtual-latency connect {float(timeout.get('connect') or 0) + 1.0}s")
            raise httpx.ConnectTimeout("timed out", request=request)
        if f == "read-timeout":
            self.log.append(f"net virtual-latency read {float(timeout.get('read') or 0) + 1.0}s")
            raise httpx.ReadTimeout("timed out", request=request)
        if f == "remote-protocol-error":
            raise httpx.RemoteProtocolError("Server disconnected without sending a response.", request=request)
        if f == "write-error":
            raise httpx.WriteError("[Errno 32] Broken pipe", request=request)
        if f == "read-error":
            raise httpx.ReadError("[Errno 104] Connection reset by peer", request=request)
        if f == "pool-timeout":
            raise httpx.PoolTimeout("pool", request=request)
        if f == "proxy-error":
            raise httpx.ProxyError("407 Proxy Authentication Required", request=request)
        if f == "unsupported-protocol":
            raise httpx.UnsupportedProtocol("Request URL has an unsupported protocol 'htp://'.", request=request)
        if f == "mid-body-protocol-error":
            return httpx.Response(200, headers=headers, stream=_FailingStream(self.body, request), request=request)
        if f == "bad-content-encoding":
            headers["content-encoding"] = "gzip"
            return httpx.Response(200, headers=headers, stream=httpx.ByteStream(self.body), request=request)
        if f == "status-404-html":
            return httpx.Response(404, headers={"content-type": "text/html"}, content=b"<html><body>404 Not Found</body></html>", request=request)
        if f == "status-500-html":
            return httpx.Response(500, headers={"content-type": "text/html; charset=utf-8"}, content=b"<html>Internal Server Error</html>", request=request)
        if f == "redirect-301":
            return httpx.Response(301, headers={"location": str(request.url) + "/moved", "content-type": "text/html"}, content=b"<html>Moved</html>", request=request)
        if f == "empty-200":
            return httpx.Response(200, headers=headers, content=b"", request=request)
        if f == "slow-but-in-time":
            self.log.append(f"net virtual-latency read {max(0.0, float(timeout.get('read') or 0) - 0.5)}s")
        return httpx.Response(200, headers=headers, content=self.body, request=request)


@contextlib.contextmanager
def doc_url_channel(body: bytes, content_type: str | None, fault: str | None, log: list[str]) -> Any:
    real_get = httpx.get

    def sim_get(url: Any, *a: Any, **kw: Any) -> httpx.Response:
        timeout = kw.pop("timeout", httpx.USE_CLIENT_DEFAULT)
        client_kw = {k: kw.pop(k) for k in ("verify", "cert", "trust_env", "proxy") if k in kw}
        del client_kw
        with httpx.Client(transport=DocServerTransport(body, content_type, fault, log)) as c:
            return c.get(url, *a, timeout=timeout, **kw)

    httpx.get = sim_get  # type: ignore[assignment]
    try:
        yield
    finally:
        httpx.get = real_get  # type: ignore[assignment]
