"""Seeded generator of OpenAPI 3.0 / 3.1 documents over the SUPPORTED subset, swarm style:
every run enables a random subset of features (toggles) and picks its own size class.

Naming discipline
* top-level schema names are fixed-length tokens "M" + 3 consonants ("Mbcd"), operationIds
  "op_" + 3 consonants: prefix-free, stable under the generator's Pascal/snake casing, so every
  generated file can be attributed to the top-level item it came from by its name prefix.
* property / parameter names come from fixed vocabularies disjoint from Python keywords,
  builtins and identifiers the templates introduce themselves (C18's subject, not claimed).
"""
from __future__ import annotations

import copy
import re
import random
from typing import Any

CONS = "bcdfghjklmnpqrstvwz"

TOGGLES = [
    "inline_objects", "enums", "int_enums", "null_enums", "consts", "unions", "nullable", "allof",
    "addl_typed", "addl_false", "prefix_items", "self_refs", "mutual_refs", "alias_arrays", "alias_unions",
    "alias_scalars", "component_parameters", "component_bodies", "component_responses", "path_item_parameters",
    "same_name_two_locations", "multi_body", "multipart", "form", "octet", "text_responses", "plus_json",
    "no_content", "security", "tags", "defaults", "descriptions", "query_arrays", "header_params",
    "cookie_params", "shared_paths", "inline_response_objects", "shuffle_decl", "media_type_params", "item_level_name_clash", "multi_media_responses", "wrapped_refs", "rich_form_fields", "reserved_param_names", "python_name_clash", "noise_responses", "trailing_slash_paths", "prefix_names", "inline_in_aliases", "inline_allof", "shared_body_models", "decorations", "shared_components", "no_operation_id", "long_paths", "coinciding_enums", "http_header_names", "titles", "embedded_placeholders", "root_security", "array_in_unions", "allof_tighten",
]

PROP_VOCAB = [
    "alpha", "betaValue", "gamma_ray", "delta-force", "epsilon.dot", "Zeta", "etaCount2", "theta_3", "iotaID",
    "kappa", "muon", "nuValue", "xi_val", "omicron", "piRate", "rho", "sigmaSum", "tau", "upsilon", "phi",
    "chi", "psi", "omega", "maß",
]
PATH_VOCAB = ["petId", "owner-id", "item_id", "Key", "sub2", "zone"]
QUERY_VOCAB = ["q", "page", "pageSize", "sort-by", "filter.name", "include_deleted", "fromDate", "ids", "mode", "filter[tag]", "page size", "größe"]


def is_http_token(name: str) -> bool:
    """header field names and cookie names are RFC 7230 tokens: a query name such as 'größe' or 'filter[tag]' cannot move there"""
    return bool(re.fullmatch(r"[A-Za-z0-9!#$%&'*+.^_`|~-]+", name))


HEADER_VOCAB = ["X-Trace-Id", "x-request-key", "Api-Version", "XToken", "x_flag"]
COOKIE_VOCAB = ["session", "csrf-token", "pref_lang", "trackId"]
STR_ENUM_VALUES = ["red", "Green", "dark blue", "light-grey", "x1", "1st", "teal", "MAUVE", "°C", "naïve"]
METHODS = ["get", "put", "post", "delete", "options", "head", "patch", "trace"]
STATUSES = [200, 201, 202, 204, 400, 401, 404, 409, 422, 500, 503]
SCALARS = ["string", "integer", "number", "boolean", "date", "date-time", "uuid"]


def norm_key(name: str) -> str:
    return "".join(c for c in name.lower() if c.isalnum())


def _has_inline_object(schema: Any, top: bool = True) -> bool:
    """Does a schema definition contain an inline object (a class-generating schema that is not a $ref) below its top level?"""
    if isinstance(schema, dict):
        if not top and "$ref" not in schema and (schema.get("type") == "object" or "properties" in schema):
            return True
        return any(_has_inline_object(v, False) for k, v in schema.items() if k != "$ref")
    if isinstance(schema, list):
        return any(_has_inline_object(v, False) for v in schema)
    return False


def _all_property_names(schema: Any) -> set[str]:
    out: set[str] = set()
    if isinstance(schema, dict):
        out |= set((schema.get("properties") or {}).keys()) if isinstance(schema.get("properties"), dict) else set()
        for v in schema.values():
            out |= _all_property_names(v)
    elif isinstance(schema, list):
        for v in schema:
            out |= _all_property_names(v)
    return out


def scalar_schema(kind: str) -> dict:
    if kind in ("string", "integer", "number", "boolean"):
        return {"type": kind}
    if kind in ("date", "date-time", "uuid", "binary"):
        return {"type": "string", "format": kind}
    raise ValueError(kind)


class DocGen:
    def __init__(self, rng: random.Random, toggles: dict[str, bool] | None = None, size: str | None = None,
                 version: str | None = None, profile: str = "general") -> None:
        self.rng = rng
        self.profile = profile
        if toggles is None:
            p_on = rng.choice([0.35, 0.5, 0.7, 0.9])
            toggles = {t: rng.random() < p_on for t in TOGGLES}
        self.t = toggles
        self.size = size or rng.choice(["tiny", "small", "small", "medium"])
        self.version = version or rng.choice(["3.0.3", "3.1.0"])
        self.v31 = self.version.startswith("3.1")
        self._used_tokens: set[str] = set()
        self.schemas: dict[str, dict] = {}
        self.schema_kind: dict[str, str] = {}
        self.components: dict[str, dict] = {}
        self.title = "Sim API"

    # ------------------------------------------------------------------ names
    def token(self) -> str:
        while True:
            t = self.rng.choice(CONS) + self.rng.choice(CONS) + self.rng.choice(CONS)
            if t not in self._used_tokens:
                self._used_tokens.add(t)
                return t

    def pick_names(self, vocab: list[str], n: int, taken: set[str] | None = None) -> list[str]:
        taken = set(taken or ())
        out = []
        cand = list(vocab)
        self.rng.shuffle(cand)
        for c in cand:
            if len(out) >= n:
                break
            k = norm_key(c)
            if k in taken:
                continue
            taken.add(k)
            out.append(c)
        return out

    def on(self, t: str) -> bool:
        return bool(self.t.get(t))

    def desc(self, d: dict) -> dict:
        if self.on("descriptions") and self.rng.random() < 0.3:
            d["description"] = self.rng.choice(["A thing.", "Some value used by the API", "See docs", "Größe – naïve café ☕ (non-ASCII)"])
        return d

    # ------------------------------------------------------------------ schema pieces
    def enum_schema(self, allow_null: bool = True) -> dict:
        r = self.rng
        if self.on("int_enums") and r.random() < 0.35:
            vals: list[Any] = r.sample([1, 2, 3, 5, 8, 13, -4, 0, 21], r.randint(2, 4))
            s: dict = {"type": "integer", "enum": vals}
        else:
            vals = r.sample(STR_ENUM_VALUES, r.randint(2, 4))
            s = {"type": "string", "enum": vals}
        if allow_null and self.on("null_enums") and r.random() < 0.25:
            s["enum"] = [*s["enum"], None]
            if self.v31:
                s["type"] = [s["type"], "null"]
            else:
                s["nullable"] = True
        elif self.on("defaults") and r.random() < 0.3:
            s["default"] = r.choice(vals)
        return s

    def default_for(self, kind: str) -> Any:
        r = self.rng
        return {
            "string": r.choice(["dflt", "a b", "x-1"]),
            "integer": r.randint(-5, 99),
            "number": r.choice([1.5, 0.25, 3.0]),
            "boolean": r.random() < 0.5,
            "date": "2020-02-03",
            "date-time": "2020-02-03T04:05:06+00:00",
            "uuid": "12345678-1234-5678-1234-567812345678",
        }[kind]

    def scalar(self, kinds: list[str] | None = None, allow_default: bool = True) -> dict:
        kind = self.rng.choice(kinds or SCALARS)
        s = scalar_schema(kind)
        if allow_default and self.on("defaults") and self.rng.random() < 0.25:
            s["default"] = self.default_for(kind)
        return self.desc(s)

    def make_nullable(self, s: dict) -> dict:
        """Nullable variant of a simple (typed, non-ref) schema in the notation of the version."""
        s = dict(s)
        s.pop("default", None)
        if self.v31:
            if isinstance(s.get("type"), str):
                s["type"] = [s["type"], "null"]
            else:
                return {"oneOf": [s, {"type": "null"}]}
        else:
            s["nullable"] = True
        return s

    def ref(self, name: str) -> dict:
        return {"$ref": f"#/components/schemas/{name}"}

    def refs_of_kind(self, kinds: tuple[str, ...]) -> list[str]:
        return [n for n, k in self.schema_kind.items() if k in kinds]

    def union_schema(self, depth: int) -> dict:
        r = self.rng
        models = self.refs_of_kind(("model", "allof"))
        choice = r.random()
        if choice < 0.4 and len(models) >= 2:
            members: list[dict] = [self.ref(n) for n in r.sample(models, 2)]
        elif choice < 0.7:
            ks = r.sample(["string", "integer", "boolean", "number"], 2)
            if set(ks) == {"integer", "number"}:
                ks = ["string", "integer"]
            if self.v31 and r.random() < 0.5:
                return {"type": ks}
            members = [scalar_schema(k) for k in ks]
        elif models:
            members = [self.ref(r.choice(models)), scalar_schema(r.choice(["string", "integer"]))]
        else:
            members = [{"type": "string"}, {"type": "integer"}]
        if self.on("array_in_unions") and r.random() < 0.5:
            # one array-typed member, at a random position: its type guard is all that keeps a mapping / string / number
            # reply for a LATER member out of `cast(list[...], data)` or an element loop
            arr = {"type": "array", "items": self.ref(r.choice(models)) if models and r.random() < 0.5 else scalar_schema(r.choice(["string", "integer", "uuid"]))}
            members.insert(r.randrange(len(members) + 1), arr)
        if self.on("nullable") and self.v31 and r.random() < 0.3:
            members.append({"type": "null"})
        key = r.choice(["oneOf", "anyOf"])
        s: dict = {key: members}
        if self.on("nullable") and not self.v31 and r.random() < 0.2:
            s["nullable"] = True
        return s

    def array_schema(self, depth: int, item_kinds: str = "any") -> dict:
        r = self.rng
        if item_kinds == "scalar":
            items = self.scalar(allow_default=False)
        else:
            items = self.prop_schema(depth + 1, allow_array=depth < 1)
            items.pop("default", None)
        s: dict = {"type": "array", "items": items}
        if self.on("prefix_items") and self.v31 and r.random() < 0.25:
            s["prefixItems"] = [scalar_schema(r.choice(["string", "integer"]))]
            if r.random() < 0.4:
                del s["items"]
        return s

    def object_schema(self, depth: int, n_props: int | None = None, multipart: bool = False, form: bool = False) -> dict:
        r = self.rng
        n = n_props if n_props is not None else r.randint(1, 4 if depth else 6)
        names = self.pick_names(PROP_VOCAB, n)
        props: dict[str, dict] = {}
        for nm in names:
            if form:
                if self.on("rich_form_fields") and r.random() < 0.3:
                    props[nm] = r.choice([{"type": "array", "items": scalar_schema(r.choice(["string", "integer"]))},
                                          {"type": "string", "enum": ["red", "teal", "x1"]}, {"type": "string", "format": "date"}, {"type": "string", "format": "uuid"}])
                else:
                    props[nm] = self.scalar(["string", "integer", "number", "boolean"], allow_default=False)
            elif multipart:
                c = r.random()
                if c < 0.3:
                    props[nm] = {"type": "string", "format": "binary"}
                elif self.on("rich_form_fields") and c < 0.45:
                    props[nm] = r.choice([{"type": "string", "enum": ["red", "teal", "x1"]}, {"type": "integer", "enum": [1, 2, 3]}, {"type": "string", "format": "date"},
                                          {"type": "string", "format": "date-time"}, {"type": "string", "format": "uuid"}])
                elif c < 0.7:
                    props[nm] = self.scalar(["string", "integer", "number", "boolean"], allow_default=False)
                elif c < 0.85 and self.refs_of_kind(("model",)):
                    props[nm] = self.ref(r.choice(self.refs_of_kind(("model",))))
                else:
                    props[nm] = {"type": "array", "items": scalar_schema(r.choice(["string", "integer"]))}
            else:
                props[nm] = self.prop_schema(depth + 1)
        s: dict = {"type": "object", "properties": props}
        if depth > 0 and self.on("titles") and r.random() < 0.35:
            # an inline object's title names its class (after the parent's name, or alone when the configuration switches
            # use_path_prefixes_for_title_model_names off); mostly unique, now and then one of two stock titles
            s["title"] = r.choice(["Address", "Item Detail"]) if r.random() < 0.3 else "T" + self.token()
        req = [nm for nm in names if r.random() < 0.5]
        if req:
            s["required"] = req
        if not (multipart or form):
            a = r.random()
            if self.on("addl_false") and a < 0.25:
                s["additionalProperties"] = False
            elif self.on("addl_typed") and a < 0.5:
                s["additionalProperties"] = r.choice(
                    [{"type": "string"}, {"type": "integer"}]
                    + ([self.ref(r.choice(self.refs_of_kind(("model",))))] if self.refs_of_kind(("model",)) else [])
                    # a class-bearing INLINE schema: the model gets a child class <Model>AdditionalProperty of its own
                    + ([{"type": "object", "properties": {"note": {"type": "string"}, "count": {"type": "integer"}}}] if self.on("inline_objects") and depth < 2 else [])
                    + ([{"type": "string", "enum": ["red", "Green", "teal"]}] if self.on("enums") and depth < 2 else [])
                )
            elif a < 0.6:
                s["additionalProperties"] = r.choice([True, {}, {}])  # ({}: the empty schema, spelled out)
        return self.desc(s)

    def _inline_allof_parents(self) -> list[str]:
        """Parents for an inline composition: plain object models whose definition already exists (no cycles, and
        their property names are known so that the extra properties cannot conflict)."""
        return [n for n in self.refs_of_kind(("model",)) if n in self.schemas and "properties" in self.schemas[n]
                and n != getattr(self, "_current_schema", None) and not _has_inline_object(self.schemas[n])]

    def prop_schema(self, depth: int, allow_array: bool = True) -> dict:
        """Schema for a model property / array item / response / json body."""
        r = self.rng
        opts = [("scalar", 5.0)]
        if self.schema_kind:
            opts.append(("ref", getattr(self, "ref_weight", 3.0)))
        if self.schema_kind and self.on("wrapped_refs"):
            opts.append(("wrapref", 1.2))
        if self.on("inline_allof") and depth < 2 and self._inline_allof_parents():
            opts.append(("inline_allof", 0.8))
        if self.on("enums"):
            opts.append(("enum", 1.5))
        if allow_array:
            opts.append(("array", 1.5))
        if self.on("inline_objects") and depth < 3:
            opts.append(("object", 1.0))
        if self.on("unions") and depth < 3:
            opts.append(("union", 1.0))
        if self.on("nullable"):
            opts.append(("nullable", 1.0))
        if self.on("consts") and self.v31:
            opts.append(("const", 0.4))
        kind = r.choices([o for o, _ in opts], [w for _, w in opts])[0]
        if kind == "scalar":
            return self.scalar()
        if kind == "ref":
            # models dedicated to form/multipart bodies may hold binary fields: never reachable from JSON contexts
            return self.ref(r.choice([n for n, k in self.schema_kind.items() if k != "bodymodel"] or list(self.schema_kind)))
        if kind == "inline_allof":
            # an inline composition: a referenced parent plus inline extra properties, as the type of a property
            parent = r.choice(self._inline_allof_parents())
            taken = self._all_prop_names(parent)
            extra = {n_: {"type": r.choice(["string", "integer", "boolean"])} for n_ in self.pick_names(PROP_VOCAB, 2, taken)}
            return {"allOf": [self.ref(parent), {"type": "object", "properties": extra}]}
        if kind == "wrapref":
            # the usual way to attach a description to a reference: a one-element allOf/oneOf/anyOf wrapper.
            # (Targets are already-defined schemas WITHOUT inline objects: the pinned generator re-processes the model
            # behind a wrapped reference and then reports its inline classes as 'duplicate models' - observed, and
            # outside the claimed properties; documents must stay free of diagnostics.)
            safe = [n for n, k in self.schema_kind.items() if k != "bodymodel" and n in self.schemas and not _has_inline_object(self.schemas[n])]
            if not safe:
                return self.scalar()
            tgt = self.ref(r.choice(safe))
            w: dict = {r.choice(["allOf", "allOf", "oneOf", "anyOf"]): [tgt]}
            if r.random() < 0.5:
                w["description"] = "wrapped reference"
            return w
        if kind == "enum":
            return self.enum_schema()
        if kind == "array":
            return self.array_schema(depth)
        if kind == "object":
            return self.object_schema(depth)
        if kind == "union":
            return self.union_schema(depth)
        if kind == "nullable":
            if self.schema_kind and r.random() < 0.3 and self.refs_of_kind(("model", "allof")):
                tgt = self.ref(r.choice(self.refs_of_kind(("model", "allof"))))
                if self.v31:
                    return {"oneOf": [tgt, {"type": "null"}]}
                return {"allOf": [tgt], "nullable": True}
            return self.make_nullable(self.scalar(allow_default=False))
        if kind == "const":
            return {"const": r.choice(["fixed", "v2", 7])}
        raise AssertionError(kind)

    # ------------------------------------------------------------------ components.schemas
    def build_schemas(self, n: int) -> None:
        r = self.rng
        names = ["M" + self.token() for _ in range(n)]
        if self.on("prefix_names") and n >= 2:
            # component names that EXTEND another component's name ("Order" next to "OrderItem"); the suffix is not a
            # property name, so inline children of the shorter one cannot collide with the longer one
            for i in range(1, n):
                if r.random() < 0.3:
                    names[i] = names[r.randrange(i)][:4] + r.choice(["Qz", "Qx", "Qw"]) + CONS[i % len(CONS)]
            if len(set(n_.lower() for n_ in names)) != len(names):
                names = ["M" + self.token() for _ in range(n)]
        kinds = []
        for i, _ in enumerate(names):
            opts = [("model", 6.0)]
            if self.on("enums"):
                opts.append(("enum", 1.5))
            if self.on("allof") and i > 0:
                opts.append(("allof", 1.5))
            if self.on("alias_arrays") and i > 0:
                opts.append(("array", 1.0))
            if self.on("alias_unions") and i > 1:
                opts.append(("union", 0.8))
            if self.on("alias_scalars"):
                opts.append(("scalar", 0.5))
            kinds.append(r.choices([o for o, _ in opts], [w for _, w in opts])[0])
        if n and "model" not in kinds:
            kinds[0] = "model"
        # declare kinds first so that property refs may point anywhere (forward, self, mutual)
        for nm, k in zip(names, kinds):
            self.schema_kind[nm] = k
        if not self.on("self_refs") or not self.on("mutual_refs"):
            pass  # restriction applied below per schema
        for i, (nm, k) in enumerate(zip(names, kinds)):
            earlier = names[:i]
            self._current_schema = nm
            if k == "model":
                visible = dict(self.schema_kind)
                if not self.on("self_refs"):
                    visible.pop(nm, None)
                if not self.on("mutual_refs"):
                    visible = {x: visible[x] for x in earlier if x in visible} | ({nm: k} if self.on("self_refs") else {})
                saved = self.schema_kind
                self.schema_kind = visible
                try:
                    s = self.object_schema(0)
                finally:
                    self.schema_kind = saved
                # a self reference must be optional/nullable-free at least once to allow finite instances:
                self._soften_self_refs(nm, s)
            elif k == "enum":
                s = self.enum_schema(allow_null=False)
                s.pop("default", None)
            elif k == "allof":
                parents = [x for x in earlier if kinds[names.index(x)] in ("model", "allof")]
                if not parents:
                    self.schema_kind[nm] = "model"
                    s = self.object_schema(0)
                else:
                    parent = r.choice(parents)
                    saved = self.schema_kind
                    self.schema_kind = {x: saved[x] for x in earlier}
                    try:
                        extra = self.object_schema(1, n_props=r.randint(1, 3))
                    finally:
                        self.schema_kind = saved
                    extra.pop("additionalProperties", None)
                    # do not redeclare a parent's property with another type (C15's subject)
                    taken = self._all_prop_names(parent)
                    extra["properties"] = {k2: v for k2, v in extra["properties"].items() if norm_key(k2) not in taken}
                    if not extra["properties"]:
                        extra["properties"] = {"extra_" + self.token(): {"type": "string"}}
                    extra["required"] = [x for x in extra.get("required", []) if x in extra["properties"]]
                    if self.on("allof_tighten"):
                        # two everyday composition idioms that touch the PARENT's own properties: the inline member requires an
                        # inherited optional property without redeclaring it, or redeclares an inherited scalar / reference
                        # property with the very same schema (to hang a description on it) - siblings of one parent do either
                        inherited = self._inherited_props(parent)
                        opt = [k2 for k2, (ps, rq) in inherited.items() if not rq]
                        if opt and r.random() < 0.4:
                            extra["required"] = list(extra.get("required", [])) + r.sample(opt, min(len(opt), r.choice([1, 1, 2])))
                        plain = [k2 for k2, (ps, rq) in inherited.items() if isinstance(ps, dict) and (set(ps) <= {"type", "format", "description"} and isinstance(ps.get("type"), str) and ps.get("type") != "array" and ps.get("type") != "object" or set(ps) == {"$ref"})]
                        if plain and r.random() < 0.35:
                            k2 = r.choice(plain)
                            extra["properties"][k2] = copy.deepcopy(inherited[k2][0])
                        # ... or narrows an inherited reference property to a model that EXTENDS the referenced one (pet: Animal -> pet: Cat)
                        refs = []
                        for k2, (ps, rq) in inherited.items():
                            if isinstance(ps, dict) and set(ps) == {"$ref"}:
                                a_ = ps["$ref"].rsplit("/", 1)[1]
                                if (self.schemas.get(a_) or {}).get("additionalProperties") not in (None, True):
                                    continue  # (read through the BASE class - which is what the generator does, C15's subject - a closed or
                                    #  typed-additional-properties model would drop or mis-decode the extension's own properties)
                                for b_, sb in self.schemas.items():
                                    if b_ != nm and isinstance(sb, dict) and isinstance(sb.get("allOf"), list) and sb["allOf"] and sb["allOf"][0] == {"$ref": f"#/components/schemas/{a_}"}:
                                        refs.append((k2, b_))
                        if refs and r.random() < 0.8:
                            k2, b_ = r.choice(refs)
                            extra["properties"] = {k2: self.ref(b_), **extra["properties"]}
                        # ... or narrows the ITEMS of an inherited array (number -> integer, string -> date)
                        arrays = [k2 for k2, (ps, rq) in inherited.items() if isinstance(ps, dict) and ps.get("type") == "array" and "prefixItems" not in ps
                                  and ps.get("items") in ({"type": "number"}, {"type": "string"})]
                        if arrays and r.random() < 0.4:
                            k2 = r.choice(arrays)
                            ps = copy.deepcopy(inherited[k2][0])
                            ps["items"] = {"type": "integer"} if ps["items"] == {"type": "number"} else {"type": "string", "format": "date"}
                            ps.pop("default", None)
                            extra["properties"] = {k2: ps, **extra["properties"]}
                        # ... or NARROWS an inherited inline enum to a strict subset of its values
                        enums = [k2 for k2, (ps, rq) in inherited.items() if isinstance(ps, dict) and "$ref" not in ps and isinstance(ps.get("enum"), list)
                                 and len([v for v in ps["enum"] if v is not None]) >= 2 and None not in ps["enum"] and "default" not in ps]
                        if enums and r.random() < 0.35:
                            k2 = r.choice(enums)
                            ps = copy.deepcopy(inherited[k2][0])
                            ps["enum"] = ps["enum"][:-1]
                            extra["properties"] = {k2: ps, **extra["properties"]}
                    if not extra.get("required"):
                        extra.pop("required", None)
                    s = {"allOf": [self.ref(parent), extra]}
            elif k == "array":
                tgt = [x for x in earlier if kinds[names.index(x)] in ("model", "allof", "enum")]
                later_models = [x for x in names[i + 1:] if kinds[names.index(x)] in ("model", "enum")]
                pool = tgt + later_models
                if pool:
                    s = {"type": "array", "items": self.ref(r.choice(pool))}
                else:
                    s = {"type": "array", "items": {"type": "string"}}
                if self.on("prefix_items") and self.v31 and r.random() < 0.4 and pool:
                    s = {"type": "array", "prefixItems": [{"type": "string"}], "items": self.ref(r.choice(pool))}
            elif k == "union":
                tgt = [x for x in names if x != nm and kinds[names.index(x)] in ("model", "allof")]
                if len(tgt) >= 2:
                    s = {r.choice(["oneOf", "anyOf"]): [self.ref(x) for x in r.sample(tgt, 2)]}
                elif tgt and self.on("inline_in_aliases"):
                    s = {"oneOf": [self.ref(tgt[0]), {"type": "string"}]}  # (never a one-element alias: see the wrapped-reference note)
                else:
                    s = {"oneOf": [{"type": "string"}, {"type": "integer"}]}
                if self.on("inline_in_aliases") and tgt and r.random() < 0.5:
                    # an INLINE object listed before a reference: if the reference is declared later, the first parse
                    # attempt registers the inline class and is then abandoned and retried
                    key = next(iter(s))
                    inline = {"type": "object", "properties": {"inl_" + self.token(): {"type": "string"}}, "required": []}
                    inline["required"] = list(inline["properties"])
                    s[key] = [inline] + [m for m in s[key] if "$ref" in m] + [m for m in s[key] if "$ref" not in m and m.get("type") == "string"]
            else:  # scalar alias
                s = scalar_schema(r.choice(["string", "integer", "date", "date-time", "uuid", "number"]))
            self.schemas[nm] = s
        if self.on("coinciding_enums"):
            # a component enum whose name and values COINCIDE with the class an inline enum property generates
            # (Order.status next to OrderStatus): the generator shares one class between them
            for nm in list(self.schemas):
                sc = self.schemas[nm]
                for pn, ps in list((sc.get("properties") or {}).items()):
                    if isinstance(ps, dict) and "enum" in ps and None not in ps["enum"] and pn.isalpha() and pn.islower() and r.random() < 0.5:
                        cname = nm + pn.capitalize()
                        if cname not in self.schemas and "Q" not in nm[1:]:
                            self.schemas[cname] = {k2: v2 for k2, v2 in ps.items() if k2 in ("type", "enum")}
                            self.schema_kind[cname] = "enum"
                            users = [x for x in self.schemas if x not in (nm, cname) and self.schema_kind.get(x) == "model" and "properties" in self.schemas[x]]
                            if users:
                                u = r.choice(users)
                                # (a name no schema of the document uses: u may be an allOf parent or child of others)
                                everywhere = {norm_key(k2) for sc2 in self.schemas.values() for k2 in _all_property_names(sc2)}
                                free = self.pick_names(PROP_VOCAB, 1, everywhere)
                                if free:
                                    self.schemas[u]["properties"][free[0]] = self.ref(cname)
                        break
        if self.on("allof_tighten") and self.on("allof") and r.random() < 0.35:
            # the covariant-property idiom, spelled out: Owner.pet: Animal; Cat = allOf[Animal, ...]; CatOwner = allOf[Owner, {pet: Cat}]
            cands = []
            for pn_, ps_ in self.schemas.items():
                if self.schema_kind.get(pn_) == "model" and isinstance(ps_.get("properties"), dict):
                    for k2, v2 in ps_["properties"].items():
                        if isinstance(v2, dict) and set(v2) == {"$ref"}:
                            a_ = v2["$ref"].rsplit("/", 1)[1]
                            sa = self.schemas.get(a_) or {}
                            if a_ != pn_ and self.schema_kind.get(a_) == "model" and isinstance(sa.get("properties"), dict) and sa["properties"] and sa.get("additionalProperties") in (None, True):
                                cands.append((pn_, k2, a_))
            if cands:
                pn_, k2, a_ = r.choice(cands)
                b_, c_ = "M" + self.token(), "M" + self.token()
                taken_a = self._all_prop_names(a_)
                extra_b = {n_: {"type": r.choice(["string", "integer"])} for n_ in self.pick_names(PROP_VOCAB, 1, taken_a)} or {"extra_" + self.token(): {"type": "string"}}
                self.schemas[b_] = {"allOf": [self.ref(a_), {"type": "object", "properties": extra_b}]}
                self.schemas[c_] = {"allOf": [self.ref(pn_), {"type": "object", "properties": {k2: self.ref(b_)}}]}
                self.schema_kind[b_] = "allof"
                self.schema_kind[c_] = "allof"
        if self.on("shuffle_decl"):
            order = list(self.schemas)
            mode = r.choice(["shuffle", "reverse", "shuffle"])
            if mode == "reverse":
                order.reverse()
            else:
                r.shuffle(order)
            self.schemas = {k: self.schemas[k] for k in order}

    def _inherited_props(self, name: str, depth: int = 0) -> dict[str, tuple[Any, bool]]:
        """wire name -> (schema, required) of every property a component model declares or inherits"""
        s = self.schemas.get(name, {})
        out: dict[str, tuple[Any, bool]] = {}
        if depth > 6:
            return out
        for m in s.get("allOf", []):
            if isinstance(m, dict) and "$ref" in m:
                out.update(self._inherited_props(m["$ref"].rsplit("/", 1)[1], depth + 1))
            elif isinstance(m, dict):
                for k, v in (m.get("properties") or {}).items():
                    out[k] = (v, k in (m.get("required") or []) or (k in out and out[k][1]))
        for k, v in (s.get("properties") or {}).items():
            out[k] = (v, k in (s.get("required") or []))
        return out

    def _all_prop_names(self, name: str) -> set[str]:
        s = self.schemas.get(name, {})
        out: set[str] = set()
        if "properties" in s:
            out |= {norm_key(k) for k in s["properties"]}
        for m in s.get("allOf", []):
            if "$ref" in m:
                out |= self._all_prop_names(m["$ref"].rsplit("/", 1)[1])
            else:
                out |= {norm_key(k) for k in m.get("properties", {})}
        return out

    def _soften_self_refs(self, name: str, s: dict) -> None:
        """A required, direct, non-nullable self reference admits no finite instance; make it optional."""
        req = s.get("required", [])
        for pn, ps in s.get("properties", {}).items():
            if self._mentions(ps, name) and pn in req and ps.get("type") != "array":
                req.remove(pn)
        if "required" in s and not s["required"]:
            del s["required"]

    def _mentions(self, s: Any, name: str) -> bool:
        if isinstance(s, dict):
            if s.get("$ref", "").endswith("/" + name):
                return True
            return any(self._mentions(v, name) for v in s.values())
        if isinstance(s, list):
            return any(self._mentions(v, name) for v in s)
        return False

    # ------------------------------------------------------------------ parameters
    def param_schema(self, loc: str) -> dict:
        """Kinds per location follow the generator's documented _allowed_locations (DESIGN A.2)."""
        r = self.rng
        enum_refs = self.refs_of_kind(("enum",))
        if loc == "path":
            c = r.random()
            if c < 0.15 and self.on("enums"):
                e = self.enum_schema(allow_null=False)
                e.pop("default", None)
                if e["type"] == "string":
                    e["enum"] = [v for v in e["enum"] if " " not in v] or ["red", "teal"]
                return e
            if c < 0.25 and enum_refs and all(" " not in str(v) for v in self.schemas[enum_refs[0]]["enum"]):
                return self.ref(enum_refs[0])
            return scalar_schema(r.choice(["string", "string", "integer", "number", "boolean", "uuid", "date", "date-time"]))
        if loc == "query":
            c = r.random()
            if c < 0.12 and self.on("enums"):
                return self.enum_schema(allow_null=False)
            if c < 0.2 and enum_refs:
                return self.ref(r.choice(enum_refs))
            if c < 0.35 and self.on("query_arrays"):
                it = r.choice(["string", "integer", "number", "boolean", "date", "uuid"])
                return {"type": "array", "items": scalar_schema(it)}
            if c < 0.45 and self.on("nullable"):
                return self.make_nullable(scalar_schema(r.choice(["string", "integer", "number", "boolean"])))
            if c < 0.5 and self.on("unions"):
                return {"oneOf": [{"type": "string"}, {"type": "integer"}]} if not (self.v31 and r.random() < 0.5) else {"type": ["string", "integer"]}
            return self.scalar()
        if loc == "header":
            c = r.random()
            if c < 0.15 and self.on("enums"):
                e = self.enum_schema(allow_null=False)
                if e["type"] == "string":  # header and cookie values are ASCII on the wire (httpx refuses anything else)
                    e["enum"] = [v for v in e["enum"] if v.isascii()] or ["red", "teal"]
                    if "default" in e and e["default"] not in e["enum"]:
                        e["default"] = e["enum"][0]
                return e
            return self.scalar(["string", "string", "integer", "number", "boolean"])
        if loc == "cookie":
            c = r.random()
            if c < 0.2 and self.on("enums"):
                e = self.enum_schema(allow_null=False)
                if e["type"] != "string":
                    e = {"type": "string", "enum": ["red", "teal"]}
                e["enum"] = [v for v in e["enum"] if v.isascii()] or ["red", "teal"]
                if "default" in e and e["default"] not in e["enum"]:
                    e["default"] = e["enum"][0]
                return e
            return self.scalar(["string"])
        raise ValueError(loc)

    def make_param(self, name: str, loc: str) -> dict:
        p: dict = {"name": name, "in": loc, "schema": self.param_schema(loc)}
        if loc == "path":
            p["required"] = True
            p["schema"].pop("default", None)
        elif self.rng.random() < 0.45:
            p["required"] = True
        return self.desc(p)

    # ------------------------------------------------------------------ bodies / responses
    def json_body_schema(self) -> dict:
        r = self.rng
        models = self.refs_of_kind(("model", "allof"))
        c = r.random()
        shareable = getattr(self, "_shareable_bodies", None) or []
        if self.on("shared_body_models") and shareable and r.random() < 0.3:
            return self.ref(r.choice(shareable))
        if models and c < 0.5:
            return self.ref(r.choice(models))
        if models and c < 0.65:
            return {"type": "array", "items": self.ref(r.choice(models))}
        if c < 0.75 and self.on("inline_objects"):
            return self.object_schema(1)
        if c < 0.85:
            return {"type": "array", "items": scalar_schema(r.choice(["string", "integer", "date", "uuid", "number"]))}
        return scalar_schema(r.choice(["string", "integer", "number", "boolean"]))

    def dedicated_model(self, multipart: bool = False, form: bool = False, exclude: set | None = None) -> str:
        """A fresh component model used for a form / multipart body (so Python types stay distinct
        per media type in multi-body operations)."""
        shareable = getattr(self, "_shareable_bodies", None)
        if shareable is None:
            shareable = self._shareable_bodies = []
        cands = [x for x in shareable if x not in (exclude or set())]
        if self.on("shared_body_models") and cands and self.rng.random() < 0.4:
            # the same component as the body of ANOTHER operation, possibly under another media type (never twice in one
            # operation: the same Python type under two media types makes 'the declared media type' of an argument ambiguous)
            return self.rng.choice(cands)
        nm = "M" + self.token()
        s = self.object_schema(1, n_props=self.rng.randint(1, 4), multipart=multipart, form=form)
        self.schemas[nm] = s
        self.schema_kind[nm] = "bodymodel"
        if not any(isinstance(v, dict) and v.get("format") == "binary" for v in s["properties"].values()) and all(
                isinstance(v, dict) and v.get("type") in ("string", "integer", "number", "boolean") and "format" not in v and "enum" not in v for v in s["properties"].values()):
            shareable.append(nm)  # plain scalar fields only: encodes the same way as JSON, form and multipart
        return nm

    def make_request_body(self) -> dict | None:
        r = self.rng
        kinds = ["json"]
        if self.on("form"):
            kinds.append("form")
        if self.on("multipart"):
            kinds.append("multipart")
        if self.on("octet"):
            kinds.append("octet")
        if self.on("plus_json"):
            kinds.append("plusjson")
        n = 1
        if self.on("multi_body") and len(kinds) > 1 and r.random() < 0.4:
            n = r.randint(2, min(3, len(kinds)))
        chosen = r.sample(kinds, n)
        if "json" in chosen and "plusjson" in chosen and r.random() < 0.5:
            chosen.remove("plusjson")  # (otherwise: two JSON-family media types with different models, told apart by the body's class)
        content: dict[str, dict] = {}
        used_types: set[str] = set()
        ov = getattr(self, "ct_overrides", {}) or {}
        inv = {}
        for custom, target in ov.items():
            inv.setdefault(target, custom)
        for k in chosen:
            if k in ("json", "plusjson"):
                mt = "application/json" if k == "json" else r.choice(["application/vnd.sim+json", "application/merge-patch+json"])
                if self.on("media_type_params") and r.random() < 0.3:
                    mt += r.choice(["; charset=utf-8", "; version=2", ";profile=sim", " ; charset=utf-8", ";  version=2", "\t; profile=sim"])  # (optional whitespace around ';' is legal, RFC 9110)
                elif k == "json" and "application/json" in inv and r.random() < 0.5:
                    mt = inv["application/json"]
                if len(chosen) > 1:
                    models = [m for m in self.refs_of_kind(("model", "allof")) if m not in used_types]
                    if not models:
                        continue
                    m = r.choice(models)
                    used_types.add(m)
                    sch = self.ref(m)
                else:
                    sch = self.json_body_schema()
                content[mt] = {"schema": sch}
            elif k == "form":
                m = self.dedicated_model(form=True, exclude=used_types)
                used_types.add(m)
                mt = "application/x-www-form-urlencoded"
                if self.on("media_type_params") and r.random() < 0.3:
                    mt += "; charset=utf-8"
                content[mt] = {"schema": self.ref(m)}
            elif k == "multipart":
                m = self.dedicated_model(multipart=True, exclude=used_types)
                used_types.add(m)
                content["multipart/form-data"] = {"schema": self.ref(m)}
            elif k == "octet":
                mt = "application/octet-stream"
                if "application/octet-stream" in inv and r.random() < 0.5:
                    mt = inv["application/octet-stream"]
                elif self.on("media_type_params") and r.random() < 0.3:
                    mt += "; type=blob"
                content[mt] = {"schema": {"type": "string", "format": "binary"}}
        if not content:
            return None
        items = list(content.items())
        r.shuffle(items)
        body = {"content": dict(items)}
        if r.random() < 0.7:
            body["required"] = True
        return body

    def response_content(self) -> dict | None:
        """content dict (or None for 'no content') for one status."""
        r = self.rng
        opts = [("json", 6.0)]
        if self.on("text_responses"):
            opts.append(("text", 1.0))
        if self.on("octet"):
            opts.append(("octet", 0.7))
        if self.on("plus_json"):
            opts.append(("plusjson", 1.0))
        if self.on("no_content"):
            opts.append(("none", 1.5))
        k = r.choices([o for o, _ in opts], [w for _, w in opts])[0]
        ov = getattr(self, "ct_overrides", {}) or {}
        custom = {}
        for c_, tgt in ov.items():
            custom.setdefault(tgt, []).append(c_)
        if k == "none":
            return None
        if k == "text":
            if custom.get("text/plain") and r.random() < 0.5:
                return {r.choice(custom["text/plain"]): {"schema": {"type": "string"}}}
            return {r.choice(["text/plain", "text/html", "text/csv"]): {"schema": {"type": "string"}}}
        if k == "octet":
            if custom.get("application/octet-stream") and r.random() < 0.5:
                return {r.choice(custom["application/octet-stream"]): {"schema": {"type": "string", "format": "binary"}}}
            return {"application/octet-stream": {"schema": {"type": "string", "format": "binary"}}}
        mt = "application/json" if k == "json" else r.choice(["application/vnd.sim+json", "application/problem+json"])
        if k == "json" and custom.get("application/json") and r.random() < 0.5:
            mt = r.choice(custom["application/json"])  # a custom media type that the configuration maps to JSON
        if self.on("media_type_params") and r.random() < 0.25 and mt not in ov:
            mt += r.choice(["; charset=utf-8", "; version=2", " ; charset=utf-8", " ;version=2"])
        models = self.refs_of_kind(("model", "allof"))
        c = r.random()
        if models and c < 0.45:
            sch: dict = self.ref(r.choice(models))
        elif models and c < 0.6:
            sch = {"type": "array", "items": self.ref(r.choice(models))}
        elif c < 0.7 and self.on("inline_response_objects"):
            sch = self.object_schema(1)
        elif c < 0.78 and self.on("unions") and len(models) >= 2:
            sch = {"oneOf": [self.ref(x) for x in r.sample(models, 2)]}
        elif c < 0.84 and self.on("enums"):
            sch = self.enum_schema(allow_null=False)
            sch.pop("default", None)
        elif c < 0.9:
            sch = {"type": "array", "items": scalar_schema(r.choice(["string", "integer", "uuid", "date-time"]))}
        elif c < 0.95 and self.refs_of_kind(("array", "union", "enum", "scalar")):
            sch = self.ref(r.choice(self.refs_of_kind(("array", "union", "enum", "scalar"))))
        else:
            sch = scalar_schema(r.choice(["string", "integer", "number", "boolean", "date", "date-time", "uuid"]))
        return {mt: {"schema": sch}}

    def make_response(self) -> dict:
        resp: dict = {"description": self.rng.choice(["ok", "result", "error", "done"])}
        c = self.response_content()
        if c is not None:
            if self.on("multi_media_responses") and self.rng.random() < 0.3:
                # an unsupported media type listed FIRST, with another schema: the first SUPPORTED one decides
                junk = {self.rng.choice(["application/xml", "image/png", "application/pdf"]): {"schema": self.rng.choice([{"type": "integer"}, {"type": "string", "format": "binary"}, {"type": "array", "items": {"type": "boolean"}}])}}
                c = {**junk, **c}
                if self.rng.random() < 0.3:
                    c["application/x-other"] = {"schema": {"type": "boolean"}}
            resp["content"] = c
        return resp

    # ------------------------------------------------------------------ operations
    def build_paths(self, n_ops: int) -> dict:
        r = self.rng
        paths: dict[str, dict] = {}
        comp_params: dict[str, dict] = {}
        comp_bodies: dict[str, dict] = {}
        comp_responses: dict[str, dict] = {}
        ops_left = n_ops
        while ops_left > 0:
            n_here = 1
            if self.on("shared_paths") and ops_left > 1 and r.random() < 0.4:
                n_here = min(ops_left, r.randint(2, 3))
            ops_left -= n_here
            # path template
            n_path = r.choice([0, 0, 1, 1, 2, 3])
            pnames = self.pick_names(PATH_VOCAB, n_path)
            segs = ["r" + self.token()]
            for pn in pnames:
                if r.random() < 0.4:
                    segs.append(self.token())
                if self.on("embedded_placeholders") and r.random() < 0.3:
                    # a placeholder that is only PART of its segment: /files/{name}.json, /v{major}, /{id}:cancel
                    segs.append(r.choice(["id-{%s}", "{%s}.json", "{%s}:act", "v{%s}"]) % pn)
                else:
                    segs.append("{" + pn + "}")
            if r.random() < 0.3:
                segs.append(self.token())
            if self.on("long_paths") and r.random() < 0.15:
                segs = segs + [self.token() + "Resource" + self.token() for _ in range(r.randint(6, 12))]  # deeply nested: a long derived name
            path = "/" + "/".join(segs)
            if self.on("trailing_slash_paths") and r.random() < 0.25:
                path += "/"  # a trailing slash is part of the path the document declares
            item: dict = {}
            path_params = [self.make_param(pn, "path") for pn in pnames]
            item_level: list[dict] = []
            use_item_level = self.on("path_item_parameters") and r.random() < 0.5
            methods = r.sample(METHODS, n_here)
            for method in methods:
                opid = "op_" + self.token()
                op: dict = {"operationId": opid}
                if self.on("no_operation_id") and r.random() < 0.3:
                    op = {}  # the generator derives a name from method and path
                params: list[dict] = []
                taken = {norm_key(p) for p in pnames} | {"client", "url", "body"}
                # path params: declared at op level in shuffled order unless hoisted to the path item
                decl_path = list(path_params)
                r.shuffle(decl_path)
                if not use_item_level:
                    params.extend(copy.deepcopy(decl_path))
                nq = r.choice([0, 1, 1, 2, 3])
                qn = self.pick_names(QUERY_VOCAB, nq, taken)
                taken |= {norm_key(x) for x in qn}
                if self.on("reserved_param_names") and r.random() < 0.25:
                    # names the generated function reserves for itself: the generator must rename the argument, the wire name stays
                    qn.append(r.choice(["client", "url"]))
                if self.on("python_name_clash") and qn and r.random() < 0.2:
                    # two wire names of one location that pythonise to the same identifier
                    base = qn[0]
                    # only pairs whose raw names are identifiers themselves: the generator falls back to the raw names, and a raw
                    # name like "filter.name" then yields an invalid identifier (seen; C09's subject, not claimed here)
                    variant = {"pageSize": "page_size", "include_deleted": "includeDeleted", "fromDate": "from_date", "q": "Q", "page": "Page",
                               "ids": "IDs", "mode": "Mode"}.get(base)
                    if variant and norm_key(variant) == norm_key(base):
                        qn.append(variant)
                params.extend(self.make_param(x, "query") for x in qn)
                if self.on("header_params"):
                    hn = self.pick_names(HEADER_VOCAB, r.choice([0, 1, 1, 2]), taken)
                    if self.on("http_header_names") and r.random() < 0.2:
                        hn.append("Accept")  # a header httpx also sets by itself: the argument must win
                        self._wants_ct_header = r.random() < 0.5  # "Content-Type" as a parameter, only if the operation gets no body
                    taken |= {norm_key(x) for x in hn}
                    params.extend(self.make_param(x, "header") for x in hn)
                if self.on("cookie_params"):
                    cn = self.pick_names(COOKIE_VOCAB, r.choice([0, 1, 1, 2]), taken)
                    taken |= {norm_key(x) for x in cn}
                    params.extend(self.make_param(x, "cookie") for x in cn)
                if self.on("same_name_two_locations") and r.random() < 0.3:
                    locs = [p for p in params if p["in"] in ("query", "cookie", "header")]
                    if locs:
                        src = r.choice(locs)
                        other = r.choice([x for x in ("query", "header", "cookie") if x != src["in"]])
                        if (other != "header" or self.on("header_params")) and (other == "query" or is_http_token(src["name"])):
                            # (header names are case-insensitive: "mode" and "Mode" in headers would be one field)
                            if not any(p["name"].lower() == src["name"].lower() and p["in"] == other for p in params):
                                params.append(self.make_param(src["name"], other))
                # hoist some to components
                if self.on("component_parameters"):
                    for i, p in enumerate(params):
                        if r.random() < 0.3:
                            cname = "P" + self.token()
                            comp_params[cname] = p
                            params[i] = {"$ref": f"#/components/parameters/{cname}"}
                    if self.on("shared_components") and comp_params and r.random() < 0.5:
                        # a component parameter SHARED with operations of other paths (non-path locations only)
                        present = {(q.get("name", "").lower(), q.get("in")) for q in params if isinstance(q, dict) and "name" in q}
                        present |= {(comp_params[q["$ref"].rsplit("/", 1)[1]]["name"].lower(), comp_params[q["$ref"].rsplit("/", 1)[1]]["in"]) for q in params if "$ref" in q}
                        present_norm = {norm_key(n_) for n_, _l in present} | taken
                        for cname, cp in list(comp_params.items()):
                            if cp["in"] != "path" and norm_key(cp["name"]) not in present_norm and r.random() < 0.4:
                                params.append({"$ref": f"#/components/parameters/{cname}"})
                                present_norm.add(norm_key(cp["name"]))
                r.shuffle(params)
                if params:
                    op["parameters"] = params
                if method in ("post", "put", "patch", "delete", "options", "trace", "get") and r.random() < (0.7 if method in ("post", "put", "patch") else 0.15):
                    body = self.make_request_body()
                    if body is not None:
                        if self.on("component_bodies") and r.random() < 0.3:
                            cname = "B" + self.token()
                            comp_bodies[cname] = body
                            body = {"$ref": f"#/components/requestBodies/{cname}"}
                        op["requestBody"] = body
                if getattr(self, "_wants_ct_header", False):
                    self._wants_ct_header = False
                    if "requestBody" not in op and not any(isinstance(q, dict) and q.get("name", "").lower() == "content-type" for q in op.get("parameters", [])):
                        op.setdefault("parameters", []).append({"name": "Content-Type", "in": "header", "required": True, "schema": {"type": "string", "enum": ["application/x-sim-none", "text/x-sim"]}})
                nresp = r.choice([1, 1, 2, 2, 3, 4])
                resps: dict[str, dict] = {}
                for st in sorted(r.sample(STATUSES, nresp)):
                    resp = self.make_response()
                    if st == 204:
                        resp.pop("content", None)
                    if self.on("component_responses") and r.random() < 0.25:
                        if self.on("shared_components") and comp_responses and r.random() < 0.4 and st != 204:
                            cname = r.choice(sorted(comp_responses))  # the same component response as another operation
                        else:
                            cname = "R" + self.token()
                            comp_responses[cname] = resp
                        resp = {"$ref": f"#/components/responses/{cname}"}
                    resps[str(st)] = resp
                if self.on("noise_responses") and r.random() < 0.3:
                    # declared but never exercised: legal-looking responses outside the judged workload (a binary-format
                    # schema under a text or JSON media type, an object schema under text/*); marked so that the simulated
                    # server never serves them.  They exist because a defect may use them as a TRIGGER for shared-state damage.
                    st_free = [x for x in (206, 207, 208, 226, 406, 411, 412, 415, 505, 507) if str(x) not in resps]
                    st = r.choice(st_free)
                    resps[str(st)] = {"description": "noise", "x-verif-noise": True, "content": r.choice([
                        {"text/plain": {"schema": {"type": "string", "format": "binary"}}},
                        {"application/json": {"schema": {"type": "string", "format": "binary"}}},
                        {"text/html": {"schema": {"type": "object", "properties": {"a": {"type": "string"}}}}},
                        {"application/octet-stream": {"schema": {"type": "string"}}},
                    ])}
                    resps = dict(sorted(resps.items())) if r.random() < 0.5 else resps
                op["responses"] = resps
                if self.on("security") and r.random() < 0.5:
                    op["security"] = [{"simKey": []}]
                elif self.on("security") and self.on("root_security") and r.random() < 0.3:
                    op["security"] = []  # explicit opt-out of the document-level requirement
                if self.on("tags") and r.random() < 0.7:
                    op["tags"] = r.sample(["alpha-tag", "Beta", "gamma_t"], r.choice([1, 1, 2]))
                if self.on("descriptions") and r.random() < 0.3:
                    op["summary"] = "Does a thing"
                item[method] = op
            if use_item_level and path_params:
                item_level = copy.deepcopy(path_params)
                # an operation may override a path-item-level parameter (same name+in) with another schema
                if r.random() < 0.5:
                    victim = r.choice(path_params)
                    some_op = item[r.choice(methods)]
                    override = self.make_param(victim["name"], "path")
                    some_op.setdefault("parameters", []).append(override)
                if self.on("item_level_name_clash") and r.random() < 0.6:
                    # a path-item-level parameter with the NAME of an operation-level parameter of another location
                    cands = []
                    for m_ in methods:
                        for p_ in item[m_].get("parameters", []):
                            if isinstance(p_, dict) and p_.get("in") in ("query", "header", "cookie"):
                                cands.append(p_)
                    if cands:
                        src = r.choice(cands)
                        locs = ["query"] + (["header"] if self.on("header_params") else []) + (["cookie"] if self.on("cookie_params") else [])
                        locs = [x for x in locs if x != src["in"] and (x == "query" or is_http_token(src["name"]))]
                        if locs:
                            other = r.choice(locs)
                            op_level = [comp_params.get(q["$ref"].rsplit("/", 1)[1], q) if "$ref" in q else q
                                        for m2 in methods for q in item[m2].get("parameters", []) if isinstance(q, dict)]
                            if not any(str(p_.get("name", "")).lower() == src["name"].lower() and p_.get("in") == other for p_ in item_level + op_level):
                                item_level.append(self.make_param(src["name"], other))
                if r.random() < 0.4:
                    # a path-item-level query parameter shared by all operations, shadowed in one
                    qn = "shared_q"
                    item_level.append({"name": qn, "in": "query", "schema": {"type": "integer"}})
                    if r.random() < 0.5:
                        some_op = item[r.choice(methods)]
                        some_op.setdefault("parameters", []).append({"name": qn, "in": "query", "required": True, "schema": {"type": "string"}})
                item["parameters"] = item_level
            elif use_item_level:
                pass
            paths[path] = item
        self.components_parameters = comp_params
        self.components_bodies = comp_bodies
        self.components_responses = comp_responses
        return paths

    # ------------------------------------------------------------------ document
    def document(self) -> dict:
        r = self.rng
        n_s, n_o = {"tiny": (r.randint(1, 2), 1), "small": (r.randint(2, 5), r.randint(1, 3)),
                    "medium": (r.randint(5, 10), r.randint(3, 8))}[self.size]
        if self.profile == "schemas":
            n_s, n_o = max(n_s, 4), min(n_o, getattr(self, "max_ops", 2))
        if self.profile == "operations":
            n_s = min(n_s, 4)
        self.build_schemas(n_s)
        paths = self.build_paths(n_o)
        doc: dict = {
            "openapi": self.version,
            "info": {"title": self.title, "version": "1.0." + str(r.randint(0, 9))},
            "paths": paths,
        }
        if self.on("descriptions"):
            doc["info"]["description"] = "Simulated API"
        comps: dict = {}
        if self.schemas:
            comps["schemas"] = self.schemas
        if self.components_parameters:
            comps["parameters"] = self.components_parameters
        if self.components_bodies:
            comps["requestBodies"] = self.components_bodies
        if self.components_responses:
            comps["responses"] = self.components_responses
        if self.on("security"):
            comps["securitySchemes"] = {"simKey": {"type": "apiKey", "in": "header", "name": "X-API-Key"}}
        if comps:
            doc["components"] = comps
        if self.on("decorations"):
            self.decorate(doc)
        return doc

    # ------------------------------------------------------------------ benign decorations
    def decorate(self, doc: dict) -> None:
        """Sprinkle keywords that are legal and must not change behaviour: validation keywords, annotations, formats the
        generator treats as plain, vendor extensions, document-level sections it ignores.  They widen the surface a
        defect can hide behind without changing what the reference models expect."""
        r = self.rng

        def schema_walk(x: Any, depth: int = 0) -> None:
            if isinstance(x, dict):
                t = x.get("type")
                if "$ref" not in x and isinstance(t, str) and r.random() < 0.25:
                    if t == "string" and "format" not in x and "enum" not in x:
                        x.update(r.choice([{"minLength": 0}, {"maxLength": 4096}, {"pattern": "^.*$"}, {"format": r.choice(["email", "password", "hostname", "byte", "uri"])}]))
                    elif t == "integer" and "enum" not in x:
                        x.update(r.choice([{"format": "int64"}, {"format": "int32"}, {"minimum": -(10 ** 9)}, {"maximum": 10 ** 12, "exclusiveMaximum": False} if not self.v31 else {"exclusiveMaximum": 10 ** 12}]))
                    elif t == "number":
                        x.update(r.choice([{"format": "double"}, {"format": "float"}, {"multipleOf": 0.5} if False else {"minimum": -1e9}]))
                    elif t == "array":
                        x.update(r.choice([{"minItems": 0}, {"maxItems": 1000}, {"uniqueItems": False}]))
                    elif t == "object":
                        x.update(r.choice([{"minProperties": 0}, {"maxProperties": 1000}, {"x-internal-id": self.token()}]))
                if "$ref" not in x and (t is not None or "properties" in x) and r.random() < 0.15:
                    x.update(r.choice([{"readOnly": False}, {"deprecated": True}, {"externalDocs": {"url": "https://example.com/docs"}}, {"example": "ex"},
                                       {"x-order": r.randint(0, 9)}, {"xml": {"name": "n"}}]))
                if ("oneOf" in x or "anyOf" in x) and r.random() < 0.3:
                    members = x.get("oneOf") or x.get("anyOf")
                    if all(isinstance(m, dict) and "$ref" in m for m in members):
                        x["discriminator"] = {"propertyName": "kind"}
                for v in x.values():
                    schema_walk(v, depth + 1)
            elif isinstance(x, list):
                for v in x:
                    schema_walk(v, depth + 1)

        comps = doc.get("components") or {}
        schema_walk(comps.get("schemas") or {})
        for item in (doc.get("paths") or {}).values():
            if r.random() < 0.2:
                item["summary"] = "Path item summary"
            if r.random() < 0.15:
                item["servers"] = [{"url": "https://override.example.com"}]
            for m, op in item.items():
                if not isinstance(op, dict) or "responses" not in op:
                    continue
                if r.random() < 0.2:
                    op["deprecated"] = True
                if r.random() < 0.2:
                    op["description"] = "Line one.\nLine two with 'quotes' and a backslash \\ here."
                if r.random() < 0.15:
                    op["externalDocs"] = {"url": "https://example.com/op"}
                if r.random() < 0.15:
                    op["x-codegen-hint"] = {"nested": [1, 2, {"k": None}]}
                if r.random() < 0.1:
                    op["callbacks"] = {"onEvent": {"{$request.body#/url}": {"post": {"responses": {"200": {"description": "cb"}}}}}}
                for p_ in op.get("parameters") or []:
                    if isinstance(p_, dict) and "$ref" not in p_ and r.random() < 0.2:
                        p_.update(r.choice([{"deprecated": True}, {"example": "e"}, {"style": "form", "explode": True} if p_.get("in") == "query" else {"allowEmptyValue": False} if p_.get("in") == "query" else {"x-p": 1}]))
                for resp in (op.get("responses") or {}).values():
                    if isinstance(resp, dict) and "$ref" not in resp and r.random() < 0.2:
                        resp["headers"] = {"X-Rate-Limit": {"schema": {"type": "integer"}, "description": "calls left"}}
                    if isinstance(resp, dict) and "$ref" not in resp and r.random() < 0.1:
                        resp["links"] = {"next": {"operationId": "op_none"}}
        if r.random() < 0.08:
            doc["info"]["version"] = ""  # legal (a string), and an invitation to "fall back" to something that is not in the document
        if r.random() < 0.3:
            doc["servers"] = [{"url": "https://api.example.com/{v}", "variables": {"v": {"default": "v1"}}}]
        if r.random() < 0.3:
            doc["tags"] = [{"name": "alpha-tag", "description": "first"}, {"name": "unused"}]
        if r.random() < 0.2:
            doc["externalDocs"] = {"url": "https://example.com"}
        if r.random() < 0.2:
            doc["info"].update({"contact": {"name": "n", "email": "a@example.com"}, "license": {"name": "MIT"}, "termsOfService": "https://example.com/tos"})
        if r.random() < 0.2:
            doc["x-vendor"] = {"a": [1, {"b": None}]}
        if self.on("security") and self.on("root_security"):
            doc["security"] = [{"simKey": []}]  # document-level requirement: the default of every operation without its own `security`
        if r.random() < 0.2 and self.on("security"):
            doc.setdefault("components", {}).setdefault("securitySchemes", {}).update(
                {"bearer": {"type": "http", "scheme": "bearer"}, "oauth": {"type": "oauth2", "flows": {"implicit": {"authorizationUrl": "https://example.com/auth", "scopes": {"r": "read"}}}}})
        if r.random() < 0.15:
            doc.setdefault("components", {})["headers"] = {"Hx": {"schema": {"type": "string"}}}
            doc["components"]["examples"] = {"Ex": {"value": {"a": 1}}}


def random_config(r: random.Random, doc: dict, rich: bool = True) -> dict:
    """A random generator configuration (beyond what the checks vary on purpose).  Every option here must be
    behaviour-neutral for the properties that are judged: it renames, or places identical modules under more tags."""
    cfg: dict[str, Any] = {}
    if r.random() < 0.2:
        cfg["literal_enums"] = True
    if r.random() < 0.15:
        cfg["docstrings_on_attributes"] = True
    if not rich:
        return cfg
    if r.random() < 0.2:
        cfg["generate_all_tags"] = True
    if r.random() < 0.12:
        cfg["field_prefix"] = r.choice(["attr_", "f_"])
    if r.random() < 0.12:
        cfg["use_path_prefixes_for_title_model_names"] = False
    schemas = list((doc.get("components") or {}).get("schemas") or {})
    if schemas and r.random() < 0.12:
        name = r.choice(schemas)
        import re as _re

        snake = _re.sub(r"(?<!^)(?=[A-Z])", "_", name).lower()  # overridden names keep the component's prefix (file provenance)
        cfg["class_overrides"] = {name: r.choice([{"class_name": name + "Renamed"}, {"module_name": snake + "_mod"}, {"class_name": name + "X", "module_name": snake + "_x"}])}
    if r.random() < 0.1:
        cfg["package_version_override"] = "9.9.9"
    if r.random() < 0.1:
        cfg["http_timeout"] = r.choice([1, 30])
    return cfg


def unique_titles(doc: dict) -> None:
    """Make the titles of inline schemas unique within the document (in place).  Same-titled inline objects are a naming
    conflict the generator reports ('duplicate models', the later one and its users are omitted): material for C12's
    order clause, noise for checks that judge the behaviour of what was generated."""
    seen: dict[str, int] = {}

    def walk(x: Any) -> None:
        if isinstance(x, dict):
            t = x.get("title")
            if isinstance(t, str) and ("properties" in x or "type" in x):
                seen[t] = seen.get(t, 0) + 1
                if seen[t] > 1:
                    x["title"] = f"{t} {seen[t]}"
            for v in x.values():
                walk(v)
        elif isinstance(x, list):
            for v in x:
                walk(v)

    def strip(x: Any) -> None:
        if isinstance(x, dict):
            if isinstance(x.get("title"), str) and ("properties" in x or "type" in x):
                del x["title"]
            for v in x.values():
                strip(v)
        elif isinstance(x, list):
            for v in x:
                strip(v)

    # outside components.schemas one schema object can be reached twice from ONE operation (a component response used
    # for two statuses, the same content under two media types): the titled class would be generated twice
    strip(doc.get("paths"))
    for section, content in (doc.get("components") or {}).items():
        if section == "schemas":
            walk(content)
        else:
            strip(content)


def generate(seed_rng: random.Random, **kw: Any) -> tuple[dict, dict]:
    g = DocGen(seed_rng, **kw)
    doc = g.document()
    meta = {"toggles": {k: bool(v) for k, v in g.t.items()}, "size": g.size, "version": g.version}
    return doc, meta


def count_nodes(x: Any) -> int:
    if isinstance(x, dict):
        return 1 + sum(count_nodes(v) for v in x.values())
    if isinstance(x, list):
        return 1 + sum(count_nodes(v) for v in x)
    return 1
