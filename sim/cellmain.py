"""Fresh-interpreter entry for one C12 cell (replay / minimisation): reads a JSON payload on
stdin, generates in its own sandbox, prints one JSON line with the per-file digests."""
import json
import os
import sys


def main() -> None:
    repo = os.environ.get("VERIF_REPO", "/repo")
    verif = os.path.dirname(os.path.dirname(os.path.abspath(__file__)))
    sys.path.insert(0, verif)
    sys.path.insert(0, repo)
    payload = json.loads(sys.stdin.read())
    real_stdout = os.fdopen(os.dup(1), "w")
    devnull = os.open(os.devnull, os.O_WRONLY)
    os.dup2(devnull, 1)
    from checks import c12

    res = c12.gen_cell(payload, payload["sandbox"])
    real_stdout.write(json.dumps(res) + "\n")
    real_stdout.flush()


if __name__ == "__main__":
    main()
