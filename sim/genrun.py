"""Running the REAL generator in-process: template bytecode cache, CLI invocation with a
pass-through diagnostics recorder, tree snapshots, import of generated packages."""
from __future__ import annotations

import hashlib
import importlib
import json
import os
import sys
import traceback
from typing import Any

_CACHE = None
_INSTALLED = False


def install_cache() -> None:
    """Wrap openapi_python_client.Environment to pass an in-memory jinja2 BytecodeCache.

    Jinja keys the cache on template name+filename and validates a checksum of the source it
    just read, so edited templates are recompiled; rendered output is byte-identical."""
    global _CACHE, _INSTALLED
    if _INSTALLED:
        return
    import jinja2

    import openapi_python_client as opc

    class MemCache(jinja2.BytecodeCache):
        def __init__(self) -> None:
            self.store: dict[str, bytes] = {}

        def load_bytecode(self, bucket) -> None:  # type: ignore[no-untyped-def]
            b = self.store.get(bucket.key)
            if b is not None:
                bucket.bytecode_from_string(b)

        def dump_bytecode(self, bucket) -> None:  # type: ignore[no-untyped-def]
            self.store[bucket.key] = bucket.bytecode_to_string()

    _CACHE = MemCache()
    real_env = opc.Environment

    def cached_env(*a: Any, **kw: Any):  # type: ignore[no-untyped-def]
        kw.setdefault("bytecode_cache", _CACHE)
        return real_env(*a, **kw)

    opc.Environment = cached_env  # type: ignore[misc]
    _INSTALLED = True


def warm_up() -> None:
    """Import what runs need and compile every template once, WITHOUT running the parser, so
    that forked children start from a process that has never generated anything (cold)."""
    import asyncio  # noqa: F401
    import inspect  # noqa: F401

    import httpx  # noqa: F401
    import typer.testing  # noqa: F401

    import openapi_python_client as opc
    import openapi_python_client.cli  # noqa: F401

    install_cache()
    # per-process lazy initialisations that are pure (no generator state): mimetypes table, YAML
    # loader classes, deferred pydantic model builds, click command construction
    try:
        import mimetypes
        import random

        from ruamel.yaml import YAML

        from openapi_python_client import schema as oai
        from sim import docgen

        mimetypes.guess_type("file:///x/y.json", strict=True)
        YAML(typ="safe").load(b"a: [1, {b: c}]\n")
        for i in range(6):
            doc, _ = docgen.generate(random.Random(i), toggles={t: True for t in docgen.TOGGLES}, size="medium")
            oai.OpenAPI.model_validate(doc)
        typer.testing.CliRunner(mix_stderr=False).invoke(openapi_python_client.cli.app, ["--version"])
    except Exception:  # noqa: BLE001
        pass
    try:
        from openapi_python_client.config import Config, ConfigFile, MetaType
        from openapi_python_client.parser.openapi import GeneratorData

        cfg = Config.from_sources(ConfigFile(), MetaType.POETRY, "x", "utf-8", False, None)
        gd = GeneratorData(
            title="warm", description=None, version="1", models=iter(()), errors=[], endpoint_collections_by_tag={}, enums=iter(())
        )
        proj = opc.Project(openapi=gd, config=cfg)
        for name in proj.env.list_templates():
            try:
                proj.env.get_template(name)
            except Exception:  # noqa: BLE001 - warm-up is best effort
                pass
    except Exception:  # noqa: BLE001
        pass


def write_config(sandbox: str, cfg: dict, name: str = "config.json") -> str:
    path = os.path.join(sandbox, name)
    with open(path, "w") as f:
        json.dump(cfg, f)
    return path


def diag_to_dict(e: Any) -> dict:
    lvl = getattr(e, "level", None)
    return {
        "level": getattr(lvl, "name", str(lvl)),
        "header": getattr(e, "header", None),
        "detail": getattr(e, "detail", None),
        "cls": type(e).__name__,
        "data": None if getattr(e, "data", None) is None else repr(e.data)[:1500],
    }


def run_cli(argv: list[str], around=None) -> dict:
    """Invoke the real CLI in-process.  `around` is an optional context-manager factory
    entered around the invocation (fs seam, step budget)."""
    import typer.testing

    import openapi_python_client as opc
    from openapi_python_client.cli import app

    rec: dict[str, Any] = {"called": 0, "diagnostics": None, "raised": None}
    real_generate = opc.generate

    def recorder(*a: Any, **kw: Any):  # type: ignore[no-untyped-def]
        rec["called"] += 1
        try:
            out = real_generate(*a, **kw)
        except BaseException as e:  # noqa: BLE001
            rec["raised"] = type(e).__name__
            raise
        rec["diagnostics"] = [diag_to_dict(e) for e in out]
        return out

    opc.generate = recorder  # type: ignore[assignment]
    try:
        runner = typer.testing.CliRunner(mix_stderr=False)
        base_exc: BaseException | None = None
        result = None
        try:
            if around is not None:
                with around():
                    result = runner.invoke(app, argv, catch_exceptions=True)
            else:
                result = runner.invoke(app, argv, catch_exceptions=True)
        except BaseException as e:  # noqa: BLE001 - SimCrash / StepBudget propagate through click
            base_exc = e
    finally:
        opc.generate = real_generate  # type: ignore[assignment]
    out: dict[str, Any] = {
        "generate_called": rec["called"],
        "diagnostics": rec["diagnostics"],
        "generate_raised": rec["raised"],
    }
    if base_exc is not None:
        out.update(exit_code=None, exception=type(base_exc).__name__, exception_msg=str(base_exc)[:500], stdout="", stderr="", tb="")
        out["base_exception"] = True
        return out
    exc = result.exception
    tb = ""
    if exc is not None and not isinstance(exc, SystemExit):
        tb = "".join(traceback.format_exception(type(exc), exc, exc.__traceback__))
        if len(tb) > 6000:  # keep the outermost frames too (which phase was running) - a RecursionError has ~1000 frames
            tb = tb[:3000] + "\n  [...]\n" + tb[-3000:]
    out.update(
        exit_code=result.exit_code,
        exception=None if (exc is None or isinstance(exc, SystemExit)) else type(exc).__name__,
        exception_msg=None if exc is None else str(exc)[:500],
        stdout=result.stdout,
        stderr=result.stderr,
        tb=tb,
    )
    out["base_exception"] = False
    return out


def tb_locus(tb: str) -> str:
    """Last frame inside openapi_python_client (file:function), for violation classes."""
    locus = ""
    for line in tb.splitlines():
        line = line.strip()
        if line.startswith("File ") and "openapi_python_client" in line:
            try:
                path = line.split('"')[1]
                func = line.rsplit(" in ", 1)[1]
                rel = path.split("openapi_python_client/", 1)[1]
                locus = f"{rel}:{func}"
            except Exception:  # noqa: BLE001
                continue
    return locus


def snapshot(root: str, exclude_dirs: tuple[str, ...] = (".ruff_cache", "__pycache__")) -> dict[str, Any]:
    """relpath -> ["d"] | ["f", sha256, size] | ["l", target]; sorted walk, no dict-order dependence."""
    snap: dict[str, Any] = {}
    if not os.path.lexists(root):
        return snap
    if os.path.islink(root):
        return {".": ["l", os.readlink(root)]}
    if not os.path.isdir(root):
        with open(root, "rb") as f:
            b = f.read()
        return {".": ["f", hashlib.sha256(b).hexdigest(), len(b)]}
    for dirpath, dirnames, filenames in os.walk(root):
        dirnames[:] = sorted(d for d in dirnames if d not in exclude_dirs)
        rel = os.path.relpath(dirpath, root)
        if rel != ".":
            snap[rel] = ["d"]
        for d in list(dirnames):
            p = os.path.join(dirpath, d)
            if os.path.islink(p):
                snap[os.path.relpath(p, root)] = ["l", os.readlink(p)]
                dirnames.remove(d)
        for fn in sorted(filenames):
            p = os.path.join(dirpath, fn)
            r = os.path.relpath(p, root)
            if os.path.islink(p):
                snap[r] = ["l", os.readlink(p)]
                continue
            with open(p, "rb") as f:
                b = f.read()
            snap[r] = ["f", hashlib.sha256(b).hexdigest(), len(b)]
    return snap


def snapshot_digest(snap: dict[str, Any]) -> str:
    h = hashlib.sha256()
    for k in sorted(snap):
        h.update(k.encode("utf-8", "surrogateescape"))
        h.update(json.dumps(snap[k]).encode())
    return h.hexdigest()


def read_tree(root: str, exclude_dirs: tuple[str, ...] = (".ruff_cache", "__pycache__")) -> dict[str, bytes]:
    out: dict[str, bytes] = {}
    for dirpath, dirnames, filenames in os.walk(root):
        dirnames[:] = sorted(d for d in dirnames if d not in exclude_dirs)
        for fn in sorted(filenames):
            p = os.path.join(dirpath, fn)
            with open(p, "rb") as f:
                out[os.path.relpath(p, root)] = f.read()
    return out


def import_package(parent_dir: str, package: str):  # type: ignore[no-untyped-def]
    """Import a generated package from parent_dir under its own name (the child is forked per
    run, so sys.modules pollution dies with it)."""
    if parent_dir not in sys.path:
        sys.path.insert(0, parent_dir)
    importlib.invalidate_caches()
    return importlib.import_module(package)


def import_all_modules(parent_dir: str, package: str) -> list[tuple[str, str]]:
    """Import every module of a generated package; returns [(module, error)] for failures."""
    failures: list[tuple[str, str]] = []
    if parent_dir not in sys.path:
        sys.path.insert(0, parent_dir)
    importlib.invalidate_caches()
    root = os.path.join(parent_dir, package)
    mods = []
    for dirpath, dirnames, filenames in os.walk(root):
        dirnames[:] = sorted(d for d in dirnames if d != "__pycache__")
        for fn in sorted(filenames):
            if not fn.endswith(".py"):
                continue
            if fn == "setup.py" and dirpath == root:
                continue  # --meta setup: a setuptools script (calls setup() on import), not a module of the package
            rel = os.path.relpath(os.path.join(dirpath, fn), parent_dir)[:-3]
            parts = rel.split(os.sep)
            if parts[-1] == "__init__":
                parts = parts[:-1]
            mods.append(".".join(parts))
    for m in mods:
        try:
            importlib.import_module(m)
        except BaseException as e:  # noqa: BLE001
            failures.append((m, f"{type(e).__name__}: {e}"[:300]))
    return failures
