"""Seed discipline: one integer decides everything.

derive(seed, *labels) -> 64-bit int via SHA-256, stream(seed, label) -> random.Random.
Every component draws from its own labelled stream so that adding a draw in one component
never shifts another.  Nothing here reads a clock or the process hash seed.
"""
from __future__ import annotations

import hashlib
import random
import re


def derive(seed: int | str, *labels: object) -> int:
    h = hashlib.sha256()
    h.update(str(seed).encode())
    for lab in labels:
        h.update(b"\x00")
        h.update(str(lab).encode())
    return int.from_bytes(h.digest()[:8], "big")


def stream(seed: int | str, *labels: object) -> random.Random:
    return random.Random(derive(seed, *labels))


_SANDBOX = re.compile(r"verif-\d+-\d+")


def fingerprint(lines) -> str:
    """SHA-256 of an event log.  The name of the per-run sandbox directory (it holds the worker's process id) is not part of
    the execution: messages that quote a path inside it (an OSError, a diagnostic) are compared without it."""
    h = hashlib.sha256()
    for ln in lines:
        ln = _SANDBOX.sub("verif-SANDBOX", ln)
        h.update(ln.encode("utf-8", "surrogatepass"))
        h.update(b"\n")
    return h.hexdigest()
