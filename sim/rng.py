"""Seed discipline: one integer decides everything.

derive(seed, *labels) -> 64-bit int via SHA-256, stream(seed, label) -> random.Random.
Every component draws from its own labelled stream so that adding a draw in one component
never shifts another.  Nothing here reads a clock or the process hash seed.
"""
from __future__ import annotations

import hashlib
import random


def derive(seed: int | str, *labels: object) -> int:
    h = hashlib.sha256()
    h.update(str(seed).encode())
    for lab in labels:
        h.update(b"\x00")
        h.update(str(lab).encode())
    return int.from_bytes(h.digest()[:8], "big")


def stream(seed: int | str, *labels: object) -> random.Random:
    return random.Random(derive(seed, *labels))


def fingerprint(lines) -> str:
    h = hashlib.sha256()
    for ln in lines:
        h.update(ln.encode("utf-8", "surrogatepass"))
        h.update(b"\n")
    return h.hexdigest()
