"""Reference model of the API described by a document: operations with resolved parameters,
bodies and responses — walked from the DOCUMENT, never from the generator's objects — and the
wire expectations for one call (DESIGN 3.1, A.2)."""
from __future__ import annotations

import json
import re
import urllib.parse
from typing import Any

from . import instances as inst

METHODS = ["get", "put", "post", "delete", "options", "head", "patch", "trace"]
PATH_RE = re.compile(r"{([a-zA-Z_-][a-zA-Z0-9_-]*)}")


def _comp(doc: dict, section: str, ref: str) -> Any:
    name = ref.rsplit("/", 1)[1]
    return ((doc.get("components") or {}).get(section) or {}).get(name)


def resolve_param(p: dict, doc: dict) -> dict | None:
    if "$ref" in p:
        return _comp(doc, "parameters", p["$ref"])
    return p


OVERRIDES: dict[str, str] = {}  # config content_type_overrides of the world being judged (set by the check)


def supported_response_media(mt: str) -> str | None:
    mt = OVERRIDES.get(mt, mt)
    base = mt.split(";")[0].strip().lower()
    if base.startswith("text/"):
        return "text"
    if base == "application/json" or base.endswith("+json"):
        return "json"
    if base == "application/octet-stream":
        return "bytes"
    return None


def body_kind(mt: str) -> str | None:
    mt = OVERRIDES.get(mt, mt)
    base = mt.split(";")[0].strip().lower()
    if base == "application/x-www-form-urlencoded":
        return "form"
    if base == "multipart/form-data":
        return "multipart"
    if base == "application/octet-stream":
        return "octet"
    if base == "application/json" or base.endswith("+json"):
        return "json"
    return None


def _requires(sec: Any) -> bool:
    """a security list demands credentials when it is non-empty and offers no empty requirement object ({} = anonymous access allowed)"""
    return isinstance(sec, list) and bool(sec) and all(isinstance(x, dict) and bool(x) for x in sec)


def operations(doc: dict) -> list[dict]:
    ops = []
    for path, item in (doc.get("paths") or {}).items():
        if not isinstance(item, dict):
            continue
        item_params = [resolve_param(p, doc) for p in item.get("parameters") or []]
        for m in METHODS:
            op = item.get(m)
            if not isinstance(op, dict):
                continue
            params: list[dict] = []
            seen: set[tuple[str, str]] = set()
            for p in [resolve_param(p, doc) for p in op.get("parameters") or []] + item_params:
                if not p or "schema" not in p:
                    continue
                key = (p["name"], p["in"])
                if key in seen:
                    continue  # operation level wins over path-item level
                seen.add(key)
                params.append({"name": p["name"], "in": p["in"], "required": bool(p.get("required")), "schema": p["schema"]})
            body = op.get("requestBody")
            if isinstance(body, dict) and "$ref" in body:
                body = _comp(doc, "requestBodies", body["$ref"])
            bodies = []
            if isinstance(body, dict):
                for mt, media in (body.get("content") or {}).items():
                    k = body_kind(mt)
                    if k and isinstance(media, dict) and media.get("schema") is not None:
                        bodies.append({"media_type": mt, "kind": k, "schema": media["schema"]})
            responses = []
            for code, resp in (op.get("responses") or {}).items():
                if isinstance(resp, dict) and "$ref" in resp:
                    resp = _comp(doc, "responses", resp["$ref"])
                try:
                    status = int(code)
                except ValueError:
                    continue
                mt_sel, schema, src = None, None, "none"
                for mt, media in ((resp or {}).get("content") or {}).items():
                    sk = supported_response_media(mt)
                    if sk:
                        mt_sel, schema, src = mt, (media or {}).get("schema"), sk
                        break
                if schema is None:
                    src = "none"
                responses.append({"status": status, "media_type": mt_sel, "schema": schema, "source": src, "noise": bool((resp or {}).get("x-verif-noise"))})
            opid = op.get("operationId")
            if opid is None:
                clean = path.replace("{", "").replace("}", "").replace("/", "_")
                clean = clean[1:] if clean.startswith("_") else clean
                clean = clean[:-1] if clean.endswith("_") else clean
                opid = f"{m}_{clean}"  # the documented naming rule for operations without operationId
            ops.append({
                "path": path, "method": m, "operationId": opid, "tags": op.get("tags") or [],
                "params": params, "bodies": bodies, "responses": responses,
                # an operation without its own `security` inherits the document-level list; `security: []` opts out
                "security": _requires(op.get("security")) if "security" in op else _requires(doc.get("security")),
                "security_inherited": "security" not in op and _requires(doc.get("security")),
            })
    return ops


# ---------------------------------------------------------------------- wire serialisation
def accepted_serialisations(kind: str, J: Any, loc: str) -> set[str]:
    """Spellings accepted for a scalar value at a location: the property fixes WHERE a value goes,
    not its spelling (DESIGN A.2)."""
    if kind == "boolean":
        return {"true", "True"} if J else {"false", "False"}
    if kind in ("integer", "number"):
        out = {str(J), repr(J)}
        if isinstance(J, float) and J == int(J):
            out.add(str(int(J)))
        return out
    if kind == "date-time":
        return {J, J.replace("T", " ")}
    if kind == "enum" or kind == "const":
        return {str(J)} | ({"true", "True"} if J is True else set()) | ({"false", "False"} if J is False else set())
    return {str(J)}


def scalar_kind(schema: dict, J: Any, doc: dict) -> str:
    """Kind used for serialisation of a concrete value (resolves unions/nullable by the value)."""
    k = inst.classify(schema, doc)
    if k == "union":
        s = inst.resolve(schema, doc)
        for m in inst.union_members(s):
            if inst.loosely_accepts(m, J, doc):
                return scalar_kind(m, J, doc)
        return "string"
    return k


def expected_request(op: dict, args: dict, doc: dict, base_path: str = "") -> dict:
    """What must be on the wire for this call.  args: {(name, in): J or ABSENT}, 'body': (media_type, J)."""
    exp: dict[str, Any] = {"method": op["method"].upper(), "query": [], "headers": {}, "cookies": {}, "path_slots": {}}
    exp["optional"] = []  # (location, name, accepted spellings): an omitted argument whose schema declares a default may be sent as that default
    for p in op["params"]:
        key = (p["name"], p["in"])
        if key not in args["params"]:
            d = inst.resolve(p["schema"], doc).get("default")
            if d is not None and not isinstance(d, (list, dict)):
                exp["optional"].append((p["in"], p["name"], accepted_serialisations(scalar_kind(p["schema"], d, doc), d, p["in"])))
            continue
        J = args["params"][key]
        if J is None:
            continue  # None for a nullable query parameter: not transmitted
        k = inst.classify(p["schema"], doc)
        if p["in"] == "query":
            if k == "array":
                s = inst.resolve(p["schema"], doc)
                for x in J:
                    exp["query"].append((p["name"], accepted_serialisations(scalar_kind(s["items"], x, doc), x, "query")))
            else:
                exp["query"].append((p["name"], accepted_serialisations(scalar_kind(p["schema"], J, doc), J, "query")))
        elif p["in"] == "header":
            exp["headers"][p["name"].lower()] = accepted_serialisations(scalar_kind(p["schema"], J, doc), J, "header")
        elif p["in"] == "cookie":
            exp["cookies"][p["name"]] = accepted_serialisations(scalar_kind(p["schema"], J, doc), J, "cookie")
        elif p["in"] == "path":
            exp["path_slots"][p["name"]] = accepted_serialisations(scalar_kind(p["schema"], J, doc), J, "path")
    exp["path_template"] = op["path"]
    exp["base_path"] = base_path
    exp["body"] = args.get("body")
    return exp


def match_raw_path(template: str, base_path: str, raw_path: str) -> dict[str, str] | None:
    """Extract slot values the way a server's router does: split the RAW (still percent-encoded) path into segments,
    match segment by segment, decode each slot afterwards.  A value with a reserved character therefore only arrives if
    the client percent-encoded it inside its own slot (a/b -> a%2Fb)."""
    base = base_path.rstrip("/")
    if not raw_path.startswith(base):
        return None
    t_segs = template.split("/")
    r_segs = raw_path[len(base):].split("/")
    if len(t_segs) != len(r_segs):
        return None
    out: dict[str, str] = {}
    for t, rs in zip(t_segs, r_segs):
        parts = PATH_RE.split(t)
        rx = "^"
        names = []
        for i, part in enumerate(parts):
            if i % 2 == 0:
                rx += re.escape(part)
            else:
                names.append(part)
                rx += "(.*)"
        m = re.match(rx + "$", urllib.parse.unquote(rs), re.S)
        if not m:
            return None
        out.update(zip(names, m.groups()))
    return out


def match_path(template: str, base_path: str, actual_path: str) -> dict[str, str] | None:
    """Extract slot values the way a server would: template -> regex, one group per placeholder."""
    parts = PATH_RE.split(template)
    rx = "^" + re.escape(base_path.rstrip("/"))
    names = []
    for i, part in enumerate(parts):
        if i % 2 == 0:
            rx += re.escape(part)
        else:
            names.append(part)
            rx += "([^/]*)"
    rx += "$"
    m = re.match(rx, actual_path)
    if not m:
        return None
    out: dict[str, str] = {}
    for n, v in zip(names, m.groups()):
        out[n] = v
    return out


def parse_cookie_header(value: str) -> list[tuple[str, str]]:
    out = []
    for part in value.split(";"):
        part = part.strip()
        if not part:
            continue
        k, _, v = part.partition("=")
        out.append((k, v))
    return out


def parse_multipart(content: bytes, boundary: bytes) -> list[dict] | None:
    delim = b"--" + boundary
    if delim not in content:
        return None
    parts = []
    chunks = content.split(delim)
    if not chunks[-1].lstrip(b"-").strip() == b"" and not chunks[-1].startswith(b"--"):
        return None
    for ch in chunks[1:-1]:
        if ch.startswith(b"\r\n"):
            ch = ch[2:]
        if ch.endswith(b"\r\n"):
            ch = ch[:-2]
        head, _, body = ch.partition(b"\r\n\r\n")
        headers = {}
        for ln in head.split(b"\r\n"):
            k, _, v = ln.partition(b":")
            headers[k.decode("latin1").strip().lower()] = v.decode("utf-8", "replace").strip()
        cd = headers.get("content-disposition", "")
        name = re.search(r'name="((?:[^"\\]|\\.)*)"', cd)
        fname = re.search(r'filename="((?:[^"\\]|\\.)*)"', cd)
        parts.append({"name": name.group(1) if name else None, "filename": fname.group(1) if fname else None,
                      "content_type": headers.get("content-type"), "data": body})
    return parts


def json_equal(a: Any, b: Any) -> bool:
    return inst.freeze(a) == inst.freeze(b)


def form_expect(J: dict, schema: dict, doc: dict) -> list[tuple[str, set[str]]]:
    """application/x-www-form-urlencoded: multi-dict of str; lists as repeated keys; None -> empty string."""
    out: list[tuple[str, set[str]]] = []
    props, _req, _addl = inst.model_properties(schema, doc)
    for k, v in J.items():
        ps = props.get(k, {})
        if isinstance(v, list):
            for x in v:
                out.append((k, accepted_serialisations(scalar_kind(inst.resolve(ps, doc).get("items", {}), x, doc) if ps else _guess_kind(x), x, "form")))
        elif v is None:
            out.append((k, {""}))
        else:
            out.append((k, accepted_serialisations(scalar_kind(ps, v, doc) if ps else _guess_kind(v), v, "form")))
    return out


def _guess_kind(v: Any) -> str:
    if isinstance(v, bool):
        return "boolean"
    if isinstance(v, int):
        return "integer"
    if isinstance(v, float):
        return "number"
    return "string"


def check_body(exp_body: tuple | None, request_headers: dict, content: bytes, doc: dict) -> str | None:
    """Decode the body the way a server would — by the Content-Type it RECEIVED — and compare with the
    argument.  Returns a description of the mismatch or None."""
    ctype = request_headers.get("content-type")
    if exp_body is None:
        if content:
            return f"no body argument but {len(content)} body bytes sent"
        return None
    media_type, kind, schema, J = exp_body
    if kind == "multipart" and not J and not content:
        return None  # a multipart body without a single field: nothing to encode, httpx sends nothing
    if ctype is None:
        return f"body sent without Content-Type (declared {media_type})"
    base = ctype.split(";")[0].strip()
    if base.lower() != media_type.split(";")[0].strip().lower():
        return f"Content-Type {ctype!r} does not match the declared media type {media_type!r}"
    if kind != "multipart" and _norm_mt(ctype) != _norm_mt(media_type):
        return f"Content-Type {ctype!r} is not the declared media type {media_type!r} (parameters differ)"
    if kind == "json":
        try:
            got = json.loads(content.decode("utf-8"))
        except Exception as e:  # noqa: BLE001
            return f"body is not JSON under {ctype}: {e}"
        if not json_equal(got, J):
            return f"JSON body differs: sent {json.dumps(got)[:300]} for argument {json.dumps(J)[:300]}"
        return None
    if kind == "octet":
        want = bytes.fromhex(J["__bytes__"])
        if content != want:
            return f"raw body differs: {content[:40]!r} vs {want[:40]!r}"
        return None
    if kind == "form":
        got_pairs = urllib.parse.parse_qsl(content.decode("utf-8"), keep_blank_values=True)
        want = form_expect(J, schema, doc)
        return _match_pairs(got_pairs, want, "form field")
    if kind == "multipart":
        m = re.search(r'boundary="?([^";]+)"?', ctype)
        if not m:
            return f"multipart Content-Type without boundary parameter: {ctype!r}"
        parts = parse_multipart(content, m.group(1).encode())
        if parts is None:
            return f"body is not delimited by the boundary named in Content-Type ({m.group(1)!r}); body starts {content[:60]!r}"
        props, _req, _addl = inst.model_properties(schema, doc)
        want_names = []
        for k, v in J.items():
            if isinstance(v, list) and inst.classify(props.get(k, {}), doc) == "array" and _is_file_array(props.get(k, {}), doc):
                want_names.extend([k] * len(v))
            else:
                want_names.append(k)
        got_names = [p["name"] for p in parts]
        if sorted(got_names) != sorted(want_names):
            return f"multipart part names {got_names} differ from body fields {want_names}"
        for k, v in J.items():
            ps = props.get(k, {})
            part = next(p for p in parts if p["name"] == k)
            pk = inst.classify(ps, doc) if ps else _guess_kind(v)
            if pk == "binary" and isinstance(v, dict):
                if part["data"] != bytes.fromhex(v["__bytes__"]):
                    return f"multipart file part {k!r} payload differs"
                if v.get("file_name") is not None and part["filename"] != v["file_name"]:
                    return f"multipart file part {k!r} filename {part['filename']!r} != {v['file_name']!r}"
                if v.get("mime_type") is not None and part["content_type"] != v["mime_type"]:
                    return f"multipart file part {k!r} content type {part['content_type']!r} != {v['mime_type']!r}"
            elif pk in ("model", "array", "any") and isinstance(v, (dict, list)):
                try:
                    got = json.loads(part["data"].decode("utf-8"))
                except Exception as e:  # noqa: BLE001
                    return f"multipart part {k!r} is not JSON: {e}"
                if not json_equal(got, v):
                    return f"multipart part {k!r} JSON differs: {got!r} vs {v!r}"
            elif v is None:
                pass
            else:
                text = part["data"].decode("utf-8", "replace")
                if text not in accepted_serialisations(scalar_kind(ps, v, doc) if ps else _guess_kind(v), v, "multipart"):
                    return f"multipart part {k!r} carries {text!r}, argument was {v!r}"
        return None
    return f"unknown body kind {kind}"


def _norm_mt(mt: str) -> str:
    return ";".join(part.strip().lower() for part in mt.split(";"))


def _is_file_array(ps: dict, doc: dict) -> bool:
    s = inst.resolve(ps, doc)
    return inst.classify(s.get("items") or {}, doc) == "binary"


def _match_pairs(got: list[tuple[str, str]], want: list[tuple[str, set[str]]], what: str) -> str | None:
    """Multiset match, order-preserving within one name."""
    by_name_got: dict[str, list[str]] = {}
    for k, v in got:
        by_name_got.setdefault(k, []).append(v)
    by_name_want: dict[str, list[set[str]]] = {}
    for k, alts in want:
        by_name_want.setdefault(k, []).append(alts)
    if set(by_name_got) != set(by_name_want):
        extra = sorted(set(by_name_got) - set(by_name_want))
        missing = sorted(set(by_name_want) - set(by_name_got))
        return f"{what}s differ: unexpected={extra} missing={missing}"
    for k, vals in by_name_got.items():
        w = by_name_want[k]
        if len(vals) != len(w):
            return f"{what} {k!r}: {len(vals)} values sent, {len(w)} expected"
        for v, alts in zip(vals, w):
            if v not in alts:
                return f"{what} {k!r}: value {v!r} not in {sorted(alts)}"
    return None


def check_request(exp: dict, req: dict, doc: dict, allowed_headers: set[str]) -> list[tuple[str, str]]:
    """Compare one recorded request with the expectation.  Returns [(kind, detail)]."""
    out: list[tuple[str, str]] = []
    if req["method"] != exp["method"]:
        out.append(("wrong-method", f"{req['method']} sent, operation is {exp['method']}"))
    slots = match_raw_path(exp["path_template"], exp["base_path"], req["raw_path"]) if "raw_path" in req else match_path(exp["path_template"], exp["base_path"], req["path"])
    if slots is None:
        out.append(("wrong-path", f"path {req.get('raw_path', req['path'])!r} does not match {exp['base_path']}{exp['path_template']}"))
    else:
        for name, alts in exp["path_slots"].items():
            if slots.get(name) not in alts:
                out.append(("path-slot", f"placeholder {{{name}}} filled with {slots.get(name)!r}, argument serialises to {sorted(alts)}"))
                break
    opt = exp.get("optional") or []
    q_names = {k for k, _ in exp["query"]}
    query = [(k, v) for k, v in req["query"] if not any(loc == "query" and n == k and k not in q_names and v in alts for loc, n, alts in opt)]
    m = _match_pairs(query, exp["query"], "query parameter")
    if m:
        out.append(("query", m))
    hdrs = dict(req["headers"])
    for loc, n, alts in opt:
        if loc == "header" and n.lower() not in exp["headers"] and hdrs.get(n.lower()) in alts:
            del hdrs[n.lower()]
    for name, alts in exp["headers"].items():
        if name not in hdrs:
            out.append(("header-missing", f"header {name!r} not sent"))
        elif hdrs[name] not in alts:
            out.append(("header-value", f"header {name!r} carries {hdrs[name]!r}, expected {sorted(alts)}"))
    extra = sorted(set(hdrs) - set(exp["headers"]) - allowed_headers)
    if extra:
        out.append(("header-unexpected", f"unexpected headers {extra}"))
    got_c = parse_cookie_header(hdrs.get("cookie", ""))
    got_c = [(k, v) for k, v in got_c if not any(loc == "cookie" and n == k and k not in exp["cookies"] and v in alts for loc, n, alts in opt)]
    m = _match_pairs(got_c, [(k, v) for k, v in exp["cookies"].items()], "cookie")
    if m:
        out.append(("cookie", m))
    b = check_body(exp["body"], hdrs, req["content"], doc)
    if b:
        out.append(("body", b))
    return out
