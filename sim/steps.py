"""Deterministic step budget ("never hangs"): a sys.monitoring (PEP 669) tool counting
PY_START events and backward-or-self JUMP events.  The count is a pure function of the code
and its input, so the budget fires at the same point on every replay; wall-clock kill is only
the backstop (sim.worker)."""
from __future__ import annotations

import sys


class StepBudgetExceeded(BaseException):
    pass


class StepBudget:
    TOOL = 4  # a free tool id (0=debugger 1=coverage 2=profiler 5=optimizer)

    def __init__(self, limit: int = 30_000_000) -> None:
        self.limit = limit
        self.count = 0
        self.exceeded = False
        self.locus = ""

    def __enter__(self) -> "StepBudget":
        mon = sys.monitoring
        E = mon.events
        try:
            mon.use_tool_id(self.TOOL, "verif-steps")
        except ValueError:
            mon.free_tool_id(self.TOOL)
            mon.use_tool_id(self.TOOL, "verif-steps")

        def on_start(code, off):  # type: ignore[no-untyped-def]
            self.count += 1
            if self.count > self.limit:
                self._trip(code)

        def on_jump(code, src, dst):  # type: ignore[no-untyped-def]
            if dst <= src:
                self.count += 1
                if self.count > self.limit:
                    self._trip(code)

        mon.register_callback(self.TOOL, E.PY_START, on_start)
        mon.register_callback(self.TOOL, E.JUMP, on_jump)
        mon.set_events(self.TOOL, E.PY_START | E.JUMP)
        return self

    def _trip(self, code=None) -> None:  # type: ignore[no-untyped-def]
        self.exceeded = True
        if code is not None:
            fn = code.co_filename
            if "openapi_python_client/" in fn:
                fn = fn.split("openapi_python_client/", 1)[1]
            self.locus = f"{fn}:{code.co_name}"
        sys.monitoring.set_events(self.TOOL, 0)
        raise StepBudgetExceeded(f"step budget {self.limit} exceeded")

    def __exit__(self, *a) -> None:  # type: ignore[no-untyped-def]
        mon = sys.monitoring
        try:
            mon.set_events(self.TOOL, 0)
            mon.register_callback(self.TOOL, mon.events.PY_START, None)
            mon.register_callback(self.TOOL, mon.events.JUMP, None)
            mon.free_tool_id(self.TOOL)
        except ValueError:
            pass
