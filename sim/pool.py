"""Coordinator side of the worker pool.

Workers are real interpreters exec'd with a fully specified environment; which hash seed a
run executes under is part of the run's world configuration (job["h"]), never an accident of
how the harness was started.  Plain pipes + select, no multiprocessing.
"""
from __future__ import annotations

import collections
import json
import os
import select
import subprocess
import sys
import time
from typing import Callable, Iterable, Iterator

VERIF = os.path.dirname(os.path.dirname(os.path.abspath(__file__)))
PY = os.environ.get("VERIF_PYTHON", "/venv/bin/python")


def base_env(hashseed: int, repo: str, extra: dict | None = None) -> dict:
    env = {
        "PYTHONHASHSEED": str(hashseed),
        "PYTHONDONTWRITEBYTECODE": "1",
        "PYTHONIOENCODING": "utf-8",
        "TZ": "UTC",
        "LC_ALL": "C.UTF-8",
        "LANG": "C.UTF-8",
        "PATH": "/usr/local/bin:/usr/bin:/bin",
        "HOME": "/dev/shm",
        "VERIF_REPO": repo,
        "NO_COLOR": "1",
        "TERM": "dumb",
        "COLUMNS": "200",
    }
    if hashseed == 3:
        # process configuration 3 of the four default ones also runs the interpreter optimised (python -O): `assert`
        # statements - in the generator AND in the generated client that the run imports - are compiled out
        env["PYTHONOPTIMIZE"] = "1"
    for k in ("VERIF_WORKER_QUIET", "VERIF_SHM"):
        if k in os.environ:
            env[k] = os.environ[k]
    if extra:
        env.update(extra)
    return env


class Worker:
    def __init__(self, idx: int, hashseed: int, repo: str, extra_env: dict | None = None):
        self.idx = idx
        self.hashseed = hashseed
        self.proc = subprocess.Popen(
            [PY, "-m", "sim.worker"],
            cwd=VERIF,
            env=base_env(hashseed, repo, extra_env),
            stdin=subprocess.PIPE,
            stdout=subprocess.PIPE,
            bufsize=0,
        )
        self.buf = b""
        self.busy: dict | None = None
        self.ready = False
        self.dead = False

    def send(self, job: dict) -> None:
        self.busy = job
        self.proc.stdin.write((json.dumps(job) + "\n").encode())
        self.proc.stdin.flush()

    def lines(self) -> Iterator[dict]:
        try:
            b = os.read(self.proc.stdout.fileno(), 1 << 20)
        except OSError:
            b = b""
        if not b:
            self.dead = True
            return
        self.buf += b
        while b"\n" in self.buf:
            line, self.buf = self.buf.split(b"\n", 1)
            if line.strip():
                yield json.loads(line)

    def close(self) -> None:
        try:
            if not self.dead:
                self.proc.stdin.write(b'{"fn": "__exit__"}\n')
                self.proc.stdin.flush()
                self.proc.stdin.close()
        except Exception:  # noqa: BLE001
            pass
        try:
            self.proc.wait(timeout=5)
        except Exception:  # noqa: BLE001
            self.proc.kill()
            self.proc.wait()


class HarnessError(Exception):
    pass


class Pool:
    """hashseeds: one entry per worker.  Jobs carry an optional "h" (required hash seed)."""

    def __init__(self, hashseeds: list[int], repo: str | None = None, extra_env: dict | None = None,
                 per_worker_env: list[dict] | None = None):
        self.repo = repo or os.environ.get("VERIF_REPO", "/repo")
        self.workers = [
            Worker(i, h, self.repo, {**(extra_env or {}), **((per_worker_env[i] if per_worker_env else None) or {})})
            for i, h in enumerate(hashseeds)
        ]
        self._next_id = 0
        t0 = time.monotonic()
        pending = set(range(len(self.workers)))
        while pending:
            if time.monotonic() - t0 > 180:
                raise HarnessError("workers did not become ready within 180 s")
            fds = {self.workers[i].proc.stdout.fileno(): self.workers[i] for i in pending}
            r, _, _ = select.select(list(fds), [], [], 5.0)
            for fd in r:
                w = fds[fd]
                for msg in w.lines():
                    if msg.get("ready"):
                        w.ready = True
                        pending.discard(w.idx)
                if w.dead:
                    raise HarnessError(f"worker {w.idx} (hashseed {w.hashseed}) died during warm-up")

    def __enter__(self):
        return self

    def __exit__(self, *a):
        self.close()

    def close(self) -> None:
        for w in self.workers:
            w.close()

    def hashseeds(self) -> list[int]:
        return sorted({w.hashseed for w in self.workers})

    def run(
        self,
        jobs: Iterable[dict],
        on_result: Callable[[dict, dict], None],
        deadline: float | None = None,
        stop: Callable[[], bool] | None = None,
    ) -> int:
        """Dispatch jobs; on_result(job, result_envelope) is called in completion order.

        Returns the number of jobs completed.  Stops pulling new jobs once deadline
        (time.monotonic()) has passed or stop() is true; in-flight jobs are drained."""
        it = iter(jobs)
        queues: dict[object, collections.deque] = collections.defaultdict(collections.deque)
        exhausted = False
        done = 0
        lookahead = 4 * len(self.workers)

        def buffered() -> int:
            return sum(len(q) for q in queues.values())

        def refill() -> None:
            nonlocal exhausted
            while not exhausted and buffered() < lookahead:
                if (deadline is not None and time.monotonic() > deadline) or (stop is not None and stop()):
                    exhausted = True
                    break
                try:
                    job = next(it)
                except StopIteration:
                    exhausted = True
                    break
                job = dict(job)
                job["id"] = self._next_id
                self._next_id += 1
                queues[job.get("h")].append(job)

        def pick(w: Worker) -> dict | None:
            q = queues.get(w.hashseed)
            if q:
                return q.popleft()
            q = queues.get(None)
            if q:
                return q.popleft()
            return None

        while True:
            refill()
            for w in self.workers:
                if w.busy is None and not w.dead:
                    job = pick(w)
                    if job is not None:
                        w.send(job)
            busy = [w for w in self.workers if w.busy is not None]
            if not busy:
                if exhausted and buffered() == 0:
                    break
                if buffered() > 0 and not any(
                    (not w.dead) and (queues.get(w.hashseed) or queues.get(None)) for w in self.workers
                ):
                    raise HarnessError(f"no live worker can serve queued jobs for hash seeds {[k for k, q in queues.items() if q]}")
                if exhausted:
                    break
                continue
            fds = {w.proc.stdout.fileno(): w for w in busy}
            r, _, _ = select.select(list(fds), [], [], 5.0)
            for fd in r:
                w = fds[fd]
                for msg in w.lines():
                    job, w.busy = w.busy, None
                    done += 1
                    on_result(job, msg)
                if w.dead and w.busy is not None:
                    job, w.busy = w.busy, None
                    done += 1
                    on_result(job, {"id": job["id"], "status": "worker-died"})
        return done

    def map(self, jobs: list[dict]) -> list[dict]:
        """Run a finite list of jobs, return envelopes in job order."""
        out: dict[int, dict] = {}
        tagged = [dict(j, _k=k) for k, j in enumerate(jobs)]
        self.run(tagged, lambda job, env: out.__setitem__(job["_k"], env))
        return [out[k] for k in range(len(jobs))]


def default_hashseeds(n_workers: int) -> list[int]:
    return [i % 4 for i in range(max(4, n_workers))]


def n_workers() -> int:
    try:
        return int(os.environ.get("VERIF_WORKERS", "0")) or min(16, os.cpu_count() or 4)
    except ValueError:
        return 16


if __name__ == "__main__":
    sys.exit(0)
