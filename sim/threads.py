"""Seeded scheduler for caller THREADS sharing one generated client object.

Real threads, but who runs is never the OS's decision: exactly one thread holds the baton at any time, all others are
parked on their own semaphore.  Pre-emption points are
  * every `line` event (sys.settrace, per thread) inside the files under the traced prefixes - the generated package -
    so a switch can land between any two statements of `_get_kwargs`, `sync_detailed`, `_parse_response`, `from_dict`,
    the client's lazy `get_httpx_client()` ...;
  * explicit yield points the simulator owns (the transport: a request is 'on the wire').
At each point one draw from the group's own seeded stream decides whether to switch, a second one to whom.  One
schedule seed therefore is one exactly repeatable interleaving; the switch list is part of the event log.

Nothing here may block on a real lock while holding the baton: module-level frames are never traced (import locks) and
all modules of the package are imported before a thread group starts.  A parked thread that is not released within
STALL_S is a harness failure (SchedStall), never a verdict.
"""
from __future__ import annotations

import sys
import threading
from typing import Any, Callable

STALL_S = 60.0


class SchedStall(RuntimeError):
    pass


class ThreadSched:
    def __init__(self, rnd: Any, prefixes: tuple[str, ...], switch_p: float, switch_steps: list[int] | None = None) -> None:
        self.rnd = rnd
        self.prefixes = prefixes
        self.switch_p = switch_p
        # pre-emption bounding: instead of a coin flip at every point, switch exactly at these global step numbers (1-3 per
        # group, drawn uniformly over the length of a call) - every "one switch at statement k" schedule is equally likely,
        # which per-step coin flips (geometric gaps) reach only rarely for large k
        self.switch_steps = set(switch_steps) if switch_steps is not None else None
        self.gates: list[threading.Semaphore] = []
        self.state: list[str] = []
        self.results: list[Any] = []
        self.main_gate = threading.Semaphore(0)
        self.steps = 0
        self.switches: list[tuple[int, int, int, str]] = []  # (step, from, to, where)
        self.finish_order: list[int] = []
        self.stalled = False
        self._tls = threading.local()

    # ------------------------------------------------------------------ scheduling
    def _runnable(self, exclude: int | None = None) -> list[int]:
        return [i for i, s in enumerate(self.state) if s == "runnable" and i != exclude]

    def _park(self, tid: int) -> None:
        if not self.gates[tid].acquire(timeout=STALL_S):
            self.stalled = True
            raise SchedStall(f"thread {tid} was never released")

    def yield_point(self, where: str = "", p: float | None = None) -> None:
        """Called by the thread that holds the baton."""
        tid = getattr(self._tls, "tid", None)
        if tid is None:
            return  # not one of ours (the coordinator outside a group)
        self.steps += 1
        others = self._runnable(exclude=tid)
        if not others:
            return
        if self.switch_steps is not None and p is None:
            go = self.steps in self.switch_steps
        else:
            go = self.rnd.random() < (self.switch_p if p is None else p)
        if go:
            nxt = others[self.rnd.randrange(len(others))]
            self.switches.append((self.steps, tid, nxt, where))
            self.gates[nxt].release()
            self._park(tid)

    # ------------------------------------------------------------------ tracing
    def _tracer(self) -> Callable:
        prefixes = self.prefixes
        sched = self

        def local(frame, event, arg):  # type: ignore[no-untyped-def]
            if event == "line":
                sched.yield_point(f"{frame.f_code.co_name}:{frame.f_lineno}")
            return local

        def glob(frame, event, arg):  # type: ignore[no-untyped-def]
            code = frame.f_code
            if code.co_name != "<module>" and code.co_filename.startswith(prefixes):
                return local
            return None

        return glob

    # ------------------------------------------------------------------ running a group
    def run(self, fns: list[Callable[[], Any]]) -> list[Any]:
        n = len(fns)
        self.gates = [threading.Semaphore(0) for _ in range(n)]
        self.state = ["runnable"] * n
        self.results = [None] * n

        def body(tid: int) -> None:
            self._tls.tid = tid
            try:
                self._park(tid)
                if self.prefixes:
                    sys.settrace(self._tracer())
                try:
                    self.results[tid] = fns[tid]()
                except BaseException as e:  # noqa: BLE001 - fns catch themselves; this is the scheduler failing
                    self.results[tid] = {"exc": e}
                finally:
                    sys.settrace(None)
            finally:
                self.state[tid] = "done"
                self.finish_order.append(tid)
                rest = self._runnable()
                if rest and not self.stalled:
                    self.gates[rest[self.rnd.randrange(len(rest))]].release()
                else:
                    self.main_gate.release()

        threads = [threading.Thread(target=body, args=(i,), name=f"sim-caller-{i}", daemon=True) for i in range(n)]
        for t in threads:
            t.start()
        first = self.rnd.randrange(n)
        self.gates[first].release()
        if not self.main_gate.acquire(timeout=STALL_S * 2):
            self.stalled = True
        if self.stalled:
            for g in self.gates:  # let parked threads run out (their results are discarded)
                g.release()
            raise SchedStall("thread group did not finish")
        for t in threads:
            t.join(timeout=STALL_S)
        return self.results
