"""C12 — same document, same bytes: deterministic and order-independent.

World: each seeded document is generated in a MATRIX of process configurations, every cell in
a different interpreter: PYTHONHASHSEED (one interpreter per value), locale/UTF-8 mode, TZ,
cwd, umask, cold process vs warm-process history, post-hooks off / real ruff / ruff absent, and
(second clause) permutations of components.schemas and paths.  Oracle: byte comparison of
output trees, file by file.
"""
from __future__ import annotations

import copy
import hashlib
import json
import os
import re
import subprocess
import sys
import time
from typing import Any

from sim import docgen, rng

PROP = "C12"
LEVEL = "exploration"
FN_SEED = "checks.c12:gen_cell"
FN_SPEC = "checks.c12:run_spec"
RULE = (
    "seed -> document biased towards what feeds sets and fixpoints (sibling-model references, unions, several response types, "
    "forward $refs in alias arrays/unions, allOf parents after children, prefixItems+items) -> matrix of cells: hash seed 0 plus "
    "3-7 other interpreters of a pool of 16 (each with its own hash seed and locale/UTF-8 mode), per-cell TZ/cwd/umask skew, warm-"
    "process histories, hooks off / ruff / ruff absent, 2-6 permutations of components.schemas and paths. Non-trivial = document "
    "with >= 1 lazy-import block of >= 2 entries, union type or forward alias reference; distinct = distinct (document digest, cell kind, hash seed)."
)
STATE_MEASURE = "distinct (document digest, hash seed) pairs generated + distinct permutations compared"
REAL = ["typer/click CLI", "openapi_python_client generator", "CPython string hashing per interpreter (PYTHONHASHSEED)", "ruff subprocess (post-hooks)", "tmpfs"]
STUB = ["jinja2 bytecode cache (in-memory; pool workers only, replays run without it)"]
ASSUMPTIONS = [
    "hash seeds are sampled (4-8 of 16 per document, pool re-drawn in the thorough tier), not enumerated",
    "ruff is a real subprocess and is not interposed; .ruff_cache is excluded from the comparison",
    "the permutation clause is judged only for documents that generate without diagnostics, as the property states",
]

TZS = ["UTC", "Asia/Tokyo", "America/Los_Angeles", "Pacific/Chatham"]
LOCALES = [
    {"LC_ALL": "C.UTF-8", "LANG": "C.UTF-8"},
    {"LC_ALL": "POSIX", "LANG": "POSIX", "PYTHONCOERCECLOCALE": "0", "PYTHONUTF8": "0"},
    {"LC_ALL": "C", "LANG": "C", "PYTHONUTF8": "1"},
    {"LC_ALL": "C.UTF-8", "LANG": "en_US.UTF-8"},
    {"LC_ALL": "C.UTF-8", "LANG": "C.UTF-8", "PYTHONOPTIMIZE": "1"},  # python -O: assert statements compiled out
]


def pool_config(seed: int, epoch: int, n: int = 16) -> tuple[list[int], list[dict]]:
    r = rng.stream(seed, "c12pool", epoch)
    # two interpreters share hash seed 0 (the base cell of every document runs there), 14 distinct others
    hs = [0, 0] + r.sample(range(1, 2**31), n - 2)
    envs = [dict(LOCALES[0]), dict(LOCALES[0])] + [dict(r.choice(LOCALES)) for _ in range(n - 2)]
    for i in range(2, 8):  # at least eight interpreters can name non-ASCII files (see build_cells)
        if envs[i].get("PYTHONUTF8") == "0":
            envs[i] = dict(LOCALES[3])
    return hs, envs


def plan(tier: str, seed: int) -> dict:
    hs, envs = pool_config(seed, 0)
    if tier == "quick":
        return {"budget_s": 75, "min_runs": 10, "minimise_s": 60, "hashseeds": hs, "per_worker_env": envs, "batch": 24, "hooks_every": 12}
    return {"budget_s": 900, "min_runs": 100, "minimise_s": 120, "hashseeds": hs, "per_worker_env": envs, "batch": 32, "hooks_every": 10, "epoch_docs": 400}


# ---------------------------------------------------------------------- workload
def make_doc(seed: int) -> tuple[dict, dict]:
    r = rng.stream(seed, "doc")
    p_on = r.choice([0.6, 0.8, 0.95])
    toggles = {t: r.random() < p_on for t in docgen.TOGGLES}
    for t in ("alias_arrays", "alias_unions", "unions", "allof", "mutual_refs", "self_refs", "shuffle_decl", "allof_tighten"):
        if r.random() < 0.8:
            toggles[t] = True
    g = docgen.DocGen(r, toggles=toggles, size=r.choice(["small", "medium", "medium"]), profile="schemas")
    g.ref_weight = 8.0
    g.max_ops = r.choice([2, 4, 6])  # enough operations for bodies/parameters/responses shared between paths
    for t in ("multipart", "form", "shared_body_models"):
        if r.random() < 0.7:
            toggles[t] = True
    if r.random() < 0.5:
        g.ct_overrides = dict(CT_OVERRIDES)
    doc = g.document()
    # two operations in DISJOINT tag sets whose distinct operationIds give the same module name ("op_xyz" / "opXyz"): each tag
    # package holds its own op_xyz.py - legal, no diagnostics, and which text lands where must not depend on the order of paths
    if r.random() < 0.25:
        cands = [(p_, m_) for p_, it in doc["paths"].items() if isinstance(it, dict) for m_, o in it.items()
                 if isinstance(o, dict) and re.fullmatch(r"op_[a-z]{3}", str(o.get("operationId") or ""))]
        if cands:
            p_, m_ = cands[r.randrange(len(cands))]
            first = doc["paths"][p_][m_]
            multi = r.random() < 0.6
            first["tags"] = ["alpha-tag", "gamma_t"] if multi else ["alpha-tag"]
            tok = first["operationId"][3:]
            for it in doc["paths"].values():  # nobody else lives in the second one's packages
                for o in it.values() if isinstance(it, dict) else []:
                    if isinstance(o, dict) and o is not first and isinstance(o.get("tags"), list):
                        o["tags"] = [t for t in o["tags"] if t not in ("Beta", "delta_t")] or ["alpha-tag"]
            doc["paths"][f"/clash{tok}"] = {r.choice(["get", "post", "delete"]): {
                "operationId": "op" + tok.capitalize(), "tags": ["Beta", "delta_t"] if multi else ["Beta"],
                "parameters": [{"name": "clash_q", "in": "query", "required": True, "schema": {"type": "string"}}],
                "responses": {"200": {"description": "ok"}}}}
    return doc, {"toggles": toggles, "version": g.version, "ct_overrides": getattr(g, "ct_overrides", None)}


CT_OVERRIDES = {"application/x-sim-archive": "application/octet-stream", "application/x-sim-doc": "application/json"}
# the same custom media types mapped differently: used for the generations that form a warm cell's HISTORY
CT_OVERRIDES_ALT = {"application/x-sim-archive": "application/json", "application/x-sim-doc": "text/plain"}


def refs_in(x: Any) -> list[str]:
    out = []
    if isinstance(x, dict):
        for k, v in x.items():
            if k == "$ref" and isinstance(v, str) and v.startswith("#/components/schemas/"):
                out.append(v.rsplit("/", 1)[1])
            else:
                out.extend(refs_in(v))
    elif isinstance(x, list):
        for v in x:
            out.extend(refs_in(v))
    return out


def make_perms(doc: dict, r, n: int) -> list[dict]:
    schemas = list((doc.get("components") or {}).get("schemas") or {})
    paths = list(doc.get("paths") or {})
    perms: list[dict] = []
    if len(schemas) < 2 and len(paths) < 2:
        return perms
    perms.append({"schemas": schemas[::-1], "paths": paths[::-1], "label": "reversed"})
    # users (children) before the schemas they reference, and the opposite
    deps = {s: [x for x in refs_in(doc["components"]["schemas"][s]) if x in schemas and x != s] for s in schemas}
    order: list[str] = []
    seen: set[str] = set()

    def visit(s: str) -> None:
        if s in seen:
            return
        seen.add(s)
        for d in deps[s]:
            visit(d)
        order.append(s)

    for s in schemas:
        visit(s)
    perms.append({"schemas": order, "paths": paths, "label": "referenced-first"})
    perms.append({"schemas": order[::-1], "paths": paths[::-1], "label": "referencing-first"})
    while len(perms) < n:
        a, b = schemas[:], paths[:]
        r.shuffle(a)
        r.shuffle(b)
        perms.append({"schemas": a, "paths": b, "label": "shuffle"})
    r.shuffle(perms)
    return perms[:n]


def apply_perm(doc: dict, perm: dict | None) -> dict:
    if not perm:
        return doc
    d = copy.deepcopy(doc)
    sc = (d.get("components") or {}).get("schemas")
    if sc and perm.get("schemas"):
        d["components"]["schemas"] = {k: sc[k] for k in perm["schemas"] if k in sc} | {k: v for k, v in sc.items() if k not in perm["schemas"]}
    if d.get("paths") and perm.get("paths"):
        p = d["paths"]
        d["paths"] = {k: p[k] for k in perm["paths"] if k in p} | {k: v for k, v in p.items() if k not in perm["paths"]}
    if perm.get("reverse_items"):
        for k, item in d["paths"].items():
            if isinstance(item, dict):
                d["paths"][k] = dict(reversed(list(item.items())))
    return d


def yaml_native_dates(doc: Any) -> Any:
    import datetime

    n = [0]

    def conv(fmt: Any, v: Any) -> Any:
        if not isinstance(v, str):
            return v
        try:
            if fmt == "date":
                return datetime.date.fromisoformat(v)
            if fmt == "date-time":
                n[0] += 1
                dt = datetime.datetime.fromisoformat(v.replace("Z", "+00:00"))
                return dt.replace(tzinfo=None) if n[0] % 2 else dt  # every other one WITHOUT an offset (a naive datetime)
        except ValueError:
            pass
        return v

    def walk(x: Any) -> Any:
        if isinstance(x, dict):
            y = {k: walk(v) for k, v in x.items()}
            if x.get("format") in ("date", "date-time"):
                for k in ("default", "example"):
                    if k in y:
                        y[k] = conv(x["format"], y[k])
                if "default" not in y and "example" not in y and x.get("type") == "string":
                    y["example"] = conv(x["format"], "2021-03-04" if x["format"] == "date" else "2021-03-04T05:06:07")
            return y
        if isinstance(x, list):
            return [walk(v) for v in x]
        return x

    return walk(doc)


def has_nonascii_names(x: Any) -> bool:
    """does the document spell a NAME (map key, parameter / operation / schema name, title, tag) with non-ASCII characters?
    Such names become module FILE names, which an interpreter whose file-system encoding is ASCII cannot create at all."""
    if isinstance(x, dict):
        for k, v in x.items():
            if not str(k).isascii():
                return True
            if k in ("name", "operationId", "title", "$ref") and isinstance(v, str) and not v.isascii():
                return True
            if k == "tags" and isinstance(v, list) and any(not str(t).isascii() for t in v):
                return True
            if has_nonascii_names(v):
                return True
    elif isinstance(x, list):
        return any(has_nonascii_names(v) for v in x)
    return False


def build_cells(seed: int, doc: dict, hashseeds: list[int], with_hooks: bool, other_docs: list[dict], penvs: list[dict] | None = None) -> list[dict]:
    r = rng.stream(seed, "cells")
    cells: list[dict] = []
    penv_of = {h: (penvs[i] if penvs else {}) for i, h in enumerate(hashseeds)}
    hashseeds = list(dict.fromkeys(hashseeds))
    if has_nonascii_names(doc) or any(has_nonascii_names(o) for o in other_docs):
        # the locale dimension then stays inside the UTF-8 family: under LC_ALL=POSIX with UTF-8 mode off the interpreter cannot
        # even NAME a file 'größe.py' (UnicodeEncodeError from os.fsencode) - a limit of that platform configuration, not a
        # dependence of the generator's output on it (false alarm met in soak, VERIF_SEED=100-102)
        utf8 = [h for h in hashseeds if (penv_of.get(h) or {}).get("PYTHONUTF8") != "0"]
        if len(utf8) >= 5:
            hashseeds = utf8

    def skew() -> dict:
        # (mtime_days: the document FILE's modification time differs from cell to cell - by days, not milliseconds)
        return {"tz": r.choice(TZS), "umask": r.choice([0o022, 0o077, 0o002]), "cwd": r.choice(["w", "deep/er/dir", "x y"]), "mtime_days": r.randrange(0, 800)}

    base = {"id": "base", "kind": "base", "h": hashseeds[0], "tz": "UTC", "umask": 0o022, "cwd": "w", "history": [], "hooks": "off", "perm": None}
    cells.append(base)
    others = r.sample(hashseeds[1:], r.randint(3, min(7, len(hashseeds) - 1)))
    for i, h in enumerate(others):
        cells.append({"id": f"cold{i}", "kind": "cold", "h": h, **skew(), "history": [], "hooks": "off", "perm": None})
    # warm-process histories on interpreters that also have a cold cell
    for i in range(r.choice([1, 1, 2])):
        h = r.choice([hashseeds[0], *others])
        hist = r.choice([["self"], ["other0"], ["other0", "self"], ["other1", "other0"], ["self", "self"],
                         # a long-lived process (a service, a build script looping over many documents): whatever is keyed by
                         # object identity or otherwise accumulated has had many generations to pile up
                         ["other0", "other1"] * 4, ["other1", "other0", "self"] * 3])
        hist_config = r.choice([None, {"content_type_overrides": CT_OVERRIDES_ALT}, {"content_type_overrides": CT_OVERRIDES_ALT, "literal_enums": True},
                                {"field_prefix": "attr_", "use_path_prefixes_for_title_model_names": False}])
        names = sorted(((doc.get("components") or {}).get("schemas") or {}))
        if names and r.random() < 0.25:
            # the SAME document was generated earlier in this process under a configuration that renames one of its classes
            nm = r.choice(names)
            hist, hist_config = r.choice([["self"], ["other0", "self"]]), {"class_overrides": {nm: {"class_name": nm + "Hist", "module_name": nm.lower() + "_hist"}}}
        cells.append({"id": f"warm{i}", "kind": "warm", "h": h, **skew(), "history": hist, "hooks": "off", "perm": None, "hist_config": hist_config})
    # the output location has a history too: other documents (same title => same package) were generated into the SAME
    # directory before, then D with --overwrite; the tree must equal the one generated into a fresh directory
    h = r.choice([hashseeds[0], *others])
    cells.append({"id": "overwrite0", "kind": "overwrite", "h": h, **skew(), "history": r.choice([["other0"], ["other1", "other0"], ["self"], ["other0", "self"]]),
                  "hooks": "off", "perm": None, "same_dir": True})
    for i, p in enumerate(make_perms(doc, r, r.randint(2, 6))):
        cells.append({"id": f"perm{i}", "kind": "perm", "h": r.choice([hashseeds[0], *others]), "tz": "UTC", "umask": 0o022, "cwd": "w",
                      "history": [], "hooks": "off", "perm": p})
    if with_hooks:
        hh = r.sample([hashseeds[0], *others], 2)
        for i, h in enumerate(hh):
            cells.append({"id": f"ruff{i}", "kind": "ruff", "h": h, **skew(), "history": [], "hooks": "ruff", "perm": None})
        for i, h in enumerate(hh):
            cells.append({"id": f"noruff{i}", "kind": "noruff", "h": h, **skew(), "history": [], "hooks": "ruff-absent", "perm": None})
    ser = r.choice(["json", "json", "json", "yaml", "yaml-native", "yaml-native"])  # one serialisation per document: every cell reads the same bytes
    for c in cells:
        c["ser"] = ser
        c["penv"] = penv_of.get(c["h"], {})  # process-level locale / UTF-8 mode of the interpreter that owns this hash seed
    return cells


# ---------------------------------------------------------------------- one cell (runs in a forked child or a fresh interpreter)
def gen_cell(args: dict, sandbox: str) -> dict:
    from sim import genrun

    cell = args["cell"]
    docs = args["docs"]  # {"self": D, "other0": ..., "other1": ...}
    meta = args.get("meta", "poetry")
    os.environ["TZ"] = cell.get("tz", "UTC")
    time.tzset()
    os.umask(cell.get("umask", 0o022))
    work = os.path.join(sandbox, cell.get("cwd", "w"))
    os.makedirs(work, exist_ok=True)
    os.chdir(work)
    cfg: dict = dict(args.get("config") or {})
    if cell["hooks"] == "off":
        cfg["post_hooks"] = []
    if cell["hooks"] == "ruff":
        os.environ["PATH"] = "/venv/bin:" + os.environ.get("PATH", "/usr/bin:/bin")
    elif cell["hooks"] == "ruff-absent":
        os.environ["PATH"] = "/usr/bin:/bin"
    cfgpath = genrun.write_config(sandbox, cfg)
    seq = list(cell.get("history") or []) + ["self"]
    res = None
    out = None
    hist_cfgpath = cfgpath
    if cell.get("hist_config") is not None:
        hc = dict(cfg)
        hc.update(cell["hist_config"])
        hist_cfgpath = genrun.write_config(sandbox, hc, name="config_history.json")
    for n, which in enumerate(seq):
        d = docs[which]
        last = n == len(seq) - 1
        if last:
            d = apply_perm(d, cell.get("perm"))
        ser = cell.get("ser") or "json"
        if ser == "json":
            dp = os.path.join(sandbox, f"doc{n}.json")
            with open(dp, "w") as f:
                json.dump(d, f)
        else:
            # the same document as YAML; "yaml-native" spells date / date-time defaults and examples as NATIVE YAML scalars
            # (unquoted 2020-02-03 04:05:06, with and without an offset): the loader hands them over as date / datetime objects
            from sim import faults

            dp = os.path.join(sandbox, f"doc{n}.yaml")
            with open(dp, "wb") as f:
                f.write(faults.dumps(yaml_native_dates(d) if ser == "yaml-native" else d, "yaml"))
        if cell.get("mtime_days") is not None:
            t = 1_600_000_000 + 86_400 * int(cell["mtime_days"]) + 3_600 * n
            os.utime(dp, (t, t))
        out = os.path.join(sandbox, "out_same" if cell.get("same_dir") else f"out{n}")
        # earlier generations of a warm cell are only HISTORY of the process (possibly under another configuration)
        argv = ["generate", "--path", dp, "--config", cfgpath if last else hist_cfgpath, "--meta", meta, "--output-path", out]
        if cell.get("same_dir") and n > 0:
            argv.append("--overwrite")
        res = genrun.run_cli(argv)
    assert res is not None and out is not None
    tree = genrun.read_tree(out) if os.path.isdir(out) else {}
    files = {k: hashlib.sha256(v).hexdigest() for k, v in tree.items()}
    lazy2 = 0
    unions = 0
    for k, v in tree.items():
        if k.endswith(".py") and "/models/" in "/" + k:
            m = re.search(rb"if TYPE_CHECKING:\n((?:  from [^\n]+\n)+)", v)
            if m and m.group(1).count(b"\n") >= 2:
                lazy2 += 1
            if b"Union[" in v:
                unions += 1
    return {
        "files": files,
        "n_diag": None if res["diagnostics"] is None else len(res["diagnostics"]),
        "diag_heads": [d["header"] for d in (res["diagnostics"] or [])][:5],
        "exception": res["exception"],
        "exit": res["exit_code"],
        "lazy2": lazy2,
        "unions": unions,
        "content": {k: tree[k].decode("utf-8", "replace") for k in (args.get("want_files") or []) if k in tree},
    }


def file_class(rel: str) -> str:
    parts = rel.split("/")
    if "models" in parts:
        return "models/__init__.py" if parts[-1] == "__init__.py" else "models/*.py"
    if "api" in parts:
        return "api/**/__init__.py" if parts[-1] == "__init__.py" else "api/*/*.py"
    return parts[-1]


def compare(a: dict, b: dict) -> tuple[str, str] | None:
    """First difference between two cells' trees: (file class, description)."""
    ea, eb = a.get("exception"), b.get("exception")
    if ea or eb:
        # a generation that dies in one process configuration (locale, hash seed, history ...) and not in the other - or
        # dies differently - depends on process-level state; two identical crashes are C06's subject, not C12's
        if str(ea).split(":")[0] == str(eb).split(":")[0]:
            return None
        return "exception", f"first cell: {str(ea)[:160]!r}; second cell: {str(eb)[:160]!r}"
    fa, fb = a["files"], b["files"]
    if fa == fb:
        return None
    only_a = sorted(set(fa) - set(fb))
    only_b = sorted(set(fb) - set(fa))
    diff = sorted(k for k in fa if k in fb and fa[k] != fb[k])
    first = (diff or only_a or only_b)[0]
    return file_class(first), f"differing={diff[:5]} only_first={only_a[:5]} only_second={only_b[:5]}"


KIND_OF = {"overwrite": "output-history-dependence", "cold": "process-nondeterminism", "warm": "history-dependence", "perm": "order-dependence", "ruff": "hooks-nondeterminism", "noruff": "hooks-nondeterminism"}


def judge(doc_seed: int, doc: dict, cells: list[dict], results: dict[str, dict], docs: dict, meta: str, config: dict) -> dict:
    """Compare cells of one document; build the run result."""
    violations = []
    specs: dict[str, dict] = {}
    base = results.get("base")
    faults: dict[str, int] = {}
    probes: dict[str, int] = {}
    states = []
    dd = hashlib.sha256(json.dumps(doc, sort_keys=True).encode()).hexdigest()[:12]

    def add(kind: str, ca: dict, cb: dict, cmp: tuple[str, str]) -> None:
        v = {"kind": kind, "locus": cmp[0], "detail": f"cells {ca['id']}(h={ca['h']}) vs {cb['id']}(h={cb['h']}): {cmp[1]}"}
        violations.append(v)
        specs[f"{kind}|{cmp[0]}"] = {"hashseed": 0, "docs": docs, "meta": meta, "config": config, "cells": [ca, cb], "doc_seed": doc_seed}

    by_id = {c["id"]: c for c in cells}
    if base is None or base.get("exception"):
        probes["base-crashed(C06 territory)"] = 1
        return {"violations": [], "skipped": "base-cell-exception", "faults": {}, "probes": probes, "states": [], "nontrivial_keys": []}
    diag_free = base["n_diag"] == 0
    probes["diag-free"] = 1 if diag_free else 0
    probes["lazy-import-block>=2"] = 1 if base["lazy2"] else 0
    probes["model-with-union"] = 1 if base["unions"] else 0
    nontrivial = bool(base["lazy2"] or base["unions"])
    for c in cells:
        r_ = results.get(c["id"])
        if r_ is None:
            continue
        faults[c["kind"]] = faults.get(c["kind"], 0) + 1
        states.append(f"{dd}|{c['kind']}|{c['h']}|{(c.get('perm') or {}).get('label', '')}")
        if c["kind"] == "cold":
            cmp = compare(base, r_)
            if cmp:
                add("process-nondeterminism", by_id["base"], c, cmp)
        elif c["kind"] == "overwrite":
            ref = next((x for x in cells if x["kind"] in ("base", "cold") and x["h"] == c["h"]), by_id["base"])
            cmp = compare(results[ref["id"]], r_)
            if cmp:
                add("output-history-dependence", ref, c, cmp)
        elif c["kind"] == "warm":
            # against the cold cell of the same interpreter
            ref = next((x for x in cells if x["kind"] in ("base", "cold") and x["h"] == c["h"]), by_id["base"])
            cmp = compare(results[ref["id"]], r_)
            if cmp:
                add("history-dependence", ref, c, cmp)
        elif c["kind"] == "perm":
            if not diag_free:
                probes["perm-skipped(diagnostics)"] = probes.get("perm-skipped(diagnostics)", 0) + 1
                continue
            ref = next((x for x in cells if x["kind"] in ("base", "cold") and x["h"] == c["h"]), by_id["base"])
            if r_.get("exception") or results[ref["id"]].get("exception"):
                cmp = compare(results[ref["id"]], r_)
                if cmp:
                    add("order-dependence", ref, c, cmp)
                continue
            if r_["n_diag"] != 0:
                violations.append({"kind": "order-dependence", "locus": "diagnostics", "detail": f"permutation {c['perm']['label']} produces diagnostics {r_['diag_heads']} while the original order produces none"})
                specs["order-dependence|diagnostics"] = {"hashseed": 0, "docs": docs, "meta": meta, "config": config, "cells": [ref, c], "doc_seed": doc_seed}
                continue
            cmp = compare(results[ref["id"]], r_)
            if cmp:
                add("order-dependence", ref, c, cmp)
    for kind in ("ruff", "noruff"):
        group = [c for c in cells if c["kind"] == kind and c["id"] in results]
        if len(group) >= 2:
            cmp = compare(results[group[0]["id"]], results[group[1]["id"]])
            if cmp:
                add("hooks-nondeterminism", group[0], group[1], cmp)
            if kind == "ruff":
                probes["ruff-cells-compared"] = 1
                if results[group[0]["id"]]["files"] != base["files"]:
                    probes["ruff-changed-output"] = 1
    # one violation per class per document; spec travels with the first
    seen = set()
    vv = []
    for v in violations:
        k = f"{v['kind']}|{v['locus']}"
        if k not in seen:
            seen.add(k)
            vv.append(v)
    out = {
        "violations": vv,
        "faults": faults,
        "probes": probes,
        "states": states,
        "nontrivial_keys": states if nontrivial else [],
        "sim_time": 0.0,
        "sample": {"doc_digest": dd, "schemas": len((doc.get("components") or {}).get("schemas") or {}), "paths": len(doc.get("paths") or {}),
                   "cells": [{"id": c["id"], "h": c["h"], "kind": c["kind"], "history": c["history"], "hooks": c["hooks"], "perm": (c.get("perm") or {}).get("label")} for c in cells],
                   "diag_free": diag_free, "files": len(base["files"])},
    }
    out["_specs"] = specs
    return out


# ---------------------------------------------------------------------- coordinator
def coordinate(drv, pool, plan_: dict, deadline: float) -> None:
    from sim import pool as poolmod

    seed = drv.seed
    i = 0
    epoch = 0
    docs_in_epoch = 0
    hashseeds = list(plan_["hashseeds"])
    penvs = list(plan_["per_worker_env"])
    while time.monotonic() < deadline and len(drv.viol_by_class) < 8:
        if plan_.get("epoch_docs") and docs_in_epoch >= plan_["epoch_docs"]:
            epoch += 1
            docs_in_epoch = 0
            hs, envs = pool_config(seed, epoch)
            if drv.pool is not pool:
                drv.pool.close()
            drv.pool = poolmod.Pool(hs, per_worker_env=envs)
            hashseeds = hs
            penvs = envs
            drv.agg_probes["pool-redraws"] += 1
        cur = drv.pool
        jobs = []
        ctx = []
        for _ in range(plan_["batch"]):
            ds = rng.derive(seed, PROP, i)
            doc, dmeta = make_doc(ds)
            others = [make_doc(rng.derive(ds, "other", k))[0] for k in range(2)]
            docs = {"self": doc, "other0": others[0], "other1": others[1]}
            r = rng.stream(ds, "args")
            meta = r.choice(["poetry", "pdm", "setup", "none"])
            config = docgen.random_config(r, doc)
            if dmeta["toggles"].get("titles") and r.random() < 0.35:
                config["use_path_prefixes_for_title_model_names"] = False  # titled inline classes are then named by their title alone
            if dmeta.get("ct_overrides"):
                config["content_type_overrides"] = dmeta["ct_overrides"]
            with_hooks = (i % plan_["hooks_every"]) == 0
            cells = build_cells(ds, doc, hashseeds, with_hooks, others, penvs)
            ctx.append((ds, doc, cells, docs, meta, config, len(jobs)))
            for c in cells:
                need = {"self": doc}
                for h in c["history"]:
                    need[h] = docs[h]
                jobs.append({"fn": FN_SEED, "args": {"cell": c, "docs": need, "meta": meta, "config": config}, "h": c["h"], "timeout": 180})
            i += 1
            docs_in_epoch += 1
        envs_ = cur.map(jobs)
        for (ds, doc, cells, docs, meta, config, off) in ctx:
            results = {}
            bad = None
            for k, c in enumerate(cells):
                e = envs_[off + k]
                if e.get("status") != "ok":
                    bad = f"{e.get('status')} {e.get('error', '')} {(e.get('traceback') or '')[-500:]}"
                    continue
                results[c["id"]] = e["result"]
            if bad:
                drv.harness_errors.append(f"doc {ds}: cell job failed: {bad}")
                continue
            res = judge(ds, doc, cells, results, docs, meta, config)
            specs = res.pop("_specs", {})
            for v in res["violations"]:
                res_one = dict(res, violations=[v], spec=specs.get(f"{v['kind']}|{v['locus']}"))
                drv._record_violation(v, res_one)
            res["violations"] = []
            drv.ingest(res)


# ---------------------------------------------------------------------- replay / minimisation unit: two cells in FRESH interpreters
def run_spec(args: dict, sandbox: str) -> dict:
    spec = args["spec"]
    cells = spec["cells"]
    results = []
    log = [f"spec {hashlib.sha256(json.dumps(spec, sort_keys=True).encode()).hexdigest()[:16]}"]
    for n, c in enumerate(cells):
        env = {
            "PYTHONHASHSEED": str(c["h"]), "PYTHONDONTWRITEBYTECODE": "1", "PYTHONIOENCODING": "utf-8", "PATH": "/usr/local/bin:/usr/bin:/bin",
            "HOME": sandbox, "VERIF_REPO": os.environ.get("VERIF_REPO", "/repo"), "TZ": "UTC", "LC_ALL": "C.UTF-8", "LANG": "C.UTF-8", "NO_COLOR": "1",
        }
        env.update(c.get("penv") or {})
        sb = os.path.join(sandbox, f"cell{n}")
        os.makedirs(sb)
        need = {k: v for k, v in spec["docs"].items() if k == "self" or k in (c.get("history") or [])}
        payload = json.dumps({"cell": c, "docs": need, "meta": spec.get("meta", "poetry"), "config": spec.get("config") or {}, "sandbox": sb})
        p = subprocess.run([sys.executable, "-m", "sim.cellmain"], input=payload, capture_output=True, text=True, env=env,
                           cwd=os.path.dirname(os.path.dirname(os.path.abspath(__file__))), timeout=300)
        if p.returncode != 0:
            raise RuntimeError(f"cell interpreter failed: {p.stderr[-800:]}")
        results.append(json.loads(p.stdout.strip().splitlines()[-1]))
        log.append(f"cell {c['id']} h={c['h']} files={hashlib.sha256(json.dumps(results[-1]['files'], sort_keys=True).encode()).hexdigest()[:16]}")
    a, b = results
    violations = pair_violation(spec, a, b)
    if not violations and any(c.get("history") for c in cells):
        # Not reproduced in fresh interpreters.  A difference that needs the state of a LONG-LIVED process (what an identity-
        # keyed or otherwise accumulated cache has piled up by the time the warmed worker forks the run) is still a
        # difference: execute the two cells once more the way the search did, in warmed worker interpreters with the cells'
        # own hash seeds and locales.  Same spec, same code path as the search; the replay takes this route too.
        from sim import pool as poolmod

        with poolmod.Pool([cells[0]["h"], cells[1]["h"]], per_worker_env=[cells[0].get("penv") or {}, cells[1].get("penv") or {}]) as wp:
            jobs = []
            for c in cells:
                need = {k: v for k, v in spec["docs"].items() if k == "self" or k in (c.get("history") or [])}
                jobs.append({"fn": FN_SEED, "args": {"cell": c, "docs": need, "meta": spec.get("meta", "poetry"), "config": spec.get("config") or {}}, "h": c["h"], "timeout": 180})
            envs = wp.map(jobs)
        if all(e.get("status") == "ok" for e in envs):
            wa, wb = envs[0]["result"], envs[1]["result"]
            violations = pair_violation(spec, wa, wb)
            for v in violations:
                v["detail"] += " [in warmed worker interpreters; fresh interpreters agree: the difference depends on the state of a long-lived process]"
            log.append(f"warm re-execution: {len(violations)} violation(s)")
    return {"violations": violations, "spec": spec, "faults": {}, "probes": {}, "states": [], "nontrivial_keys": [], "fingerprint": rng.fingerprint(log), "sim_time": 0.0}


def pair_violation(spec: dict, a: dict, b: dict) -> list[dict]:
    cells = spec["cells"]
    kind = KIND_OF.get(cells[1]["kind"], "process-nondeterminism")
    if a.get("exception") or b.get("exception"):
        cmp = compare(a, b)
        return [{"kind": kind, "locus": cmp[0], "detail": f"cells {cells[0]['id']}(h={cells[0]['h']}) vs {cells[1]['id']}(h={cells[1]['h']}): {cmp[1]}"}] if cmp else []
    if kind == "order-dependence" and a["n_diag"] != 0:
        return []
    if kind == "order-dependence" and b["n_diag"] != 0:
        return [{"kind": kind, "locus": "diagnostics", "detail": f"permutation produces diagnostics {b['diag_heads']} while the original order produces none"}]
    cmp = compare(a, b)
    if cmp:
        return [{"kind": kind, "locus": cmp[0], "detail": f"cells {cells[0]['id']}(h={cells[0]['h']}) vs {cells[1]['id']}(h={cells[1]['h']}): {cmp[1]}"}]
    return []


def minimise(drv, spec: dict, cls: str, budget_s: float) -> tuple[dict, int]:
    """Delta debugging with warm interpreters: a dedicated pool, half of it with each cell's hash
    seed and locale.  The result is re-confirmed by run_spec in fresh interpreters by the driver."""
    from sim import driver as drvmod
    from sim import pool as poolmod

    ca, cb = spec["cells"]
    n = max(4, poolmod.n_workers())
    hs = [ca["h"]] * (n // 2) + [cb["h"]] * (n - n // 2)
    envs = [ca.get("penv") or {}] * (n // 2) + [cb.get("penv") or {}] * (n - n // 2)
    t_end = time.monotonic() + budget_s
    steps = 0
    with poolmod.Pool(hs, per_worker_env=envs) as mp:
        while time.monotonic() < t_end:
            cands = shrink_candidates(spec)
            if not cands:
                break
            progressed = False
            chunk = 2 * n
            for off in range(0, len(cands), chunk):
                if time.monotonic() > t_end:
                    break
                batch = cands[off : off + chunk]
                jobs = []
                for s_ in batch:
                    for c in s_["cells"]:
                        need = {k: v for k, v in s_["docs"].items() if k == "self" or k in (c.get("history") or [])}
                        jobs.append({"fn": FN_SEED, "args": {"cell": c, "docs": need, "meta": s_.get("meta", "poetry"), "config": s_.get("config") or {}}, "h": c["h"], "timeout": 180})
                envs_ = mp.map(jobs)
                hit = None
                for k, s_ in enumerate(batch):
                    ea, eb = envs_[2 * k], envs_[2 * k + 1]
                    if ea.get("status") != "ok" or eb.get("status") != "ok":
                        continue
                    if any(drvmod.vclass(v) == cls for v in pair_violation(s_, ea["result"], eb["result"])):
                        hit = s_
                        break
                if hit is not None:
                    spec = hit
                    steps += 1
                    progressed = True
                    break
            if not progressed:
                break
    return spec, steps


def spec_size(spec: dict) -> dict:
    return {"doc_nodes": docgen.count_nodes(spec["docs"]["self"]), "history": len(spec["cells"][1].get("history") or [])}


def shrink_candidates(spec: dict) -> list[dict]:
    from sim import driver

    out = []
    c1 = spec["cells"][1]
    for key, val in (("tz", "UTC"), ("umask", 0o022), ("cwd", "w")):
        if c1.get(key) != val:
            s = copy.deepcopy(spec)
            s["cells"][1][key] = val
            out.append(s)
    if c1.get("history"):
        for j in range(len(c1["history"])):
            s = copy.deepcopy(spec)
            del s["cells"][1]["history"][j]
            if not s["cells"][1]["history"]:
                continue  # a warm cell needs a history to be a warm cell
            out.append(s)
    if spec.get("meta") != "none":
        s = copy.deepcopy(spec)
        s["meta"] = "none"
        out.append(s)
    if any(v is True for v in (spec.get("config") or {}).values()):
        s = copy.deepcopy(spec)
        s["config"] = {k: v for k, v in spec["config"].items() if v is not True}
        out.append(s)
    if c1.get("hist_config") and len(c1["hist_config"]) > 1:
        for k in list(c1["hist_config"]):
            s = copy.deepcopy(spec)
            del s["cells"][1]["hist_config"][k]
            out.append(s)
    protect = lambda p: p in (("info",), ("info", "title"), ("info", "version"), ("openapi",), ("paths",))  # noqa: E731
    for d in driver.tree_candidates(spec["docs"]["self"], limit=160, protect=protect):
        s = copy.deepcopy(spec)
        s["docs"]["self"] = d
        perm = s["cells"][1].get("perm")
        if perm:
            sc = list((d.get("components") or {}).get("schemas") or {})
            perm["schemas"] = [k for k in perm["schemas"] if k in sc]
            perm["paths"] = [k for k in perm["paths"] if k in (d.get("paths") or {})]
        out.append(s)
    for which in ("other0", "other1"):
        if which in spec["docs"] and which in (c1.get("history") or []):
            for d in driver.tree_candidates(spec["docs"][which], limit=40, protect=protect):
                s = copy.deepcopy(spec)
                s["docs"][which] = d
                out.append(s)
    return out
