"""C03 — see DESIGN.md §3.1.  Thin wrapper over the shared client/server world (checks/clientsim.py): same
world, own seeds, own oracle subset (violations tagged C03)."""
from __future__ import annotations

from checks import clientsim

PROP = "C03"
LEVEL = "exploration"
FN_SEED = "checks.c03:run_seed"
FN_SPEC = "checks.c03:run_spec"
REAL = ["openapi_python_client generator", "generated package (imported and called)", "httpx Client/AsyncClient: URL merging, query/cookie/multipart/JSON encoding, response decoding", "asyncio Task/Future machinery"]
STUB = ["transport + API server (SimTransport/Server)", "event-loop clock (virtual time SimLoop)", "os.urandom (seeded stream, multipart boundary)", "jinja2 bytecode cache"]


def plan(tier: str, seed: int) -> dict:
    if tier == "quick":
        return {"n_runs": 10_000_000, "budget_s": 60, "min_runs": 30, "minimise_s": 40}
    return {"n_runs": 10_000_000, "budget_s": 900, "min_runs": 500, "minimise_s": 90}


def run_seed(args: dict, sandbox: str) -> dict:
    spec = clientsim.build_spec(args["seed"], PROP, args.get("tier", "quick"))
    res = run_spec({"spec": spec}, sandbox)
    if not res.get("violations"):
        res.pop("spec", None)
    return res


def run_spec(args: dict, sandbox: str) -> dict:
    spec = args["spec"]
    w = clientsim.run_world(spec, sandbox, want_log=bool(args.get("want_log")))
    mine = [v for v in w["all_violations"] if v["prop"] == PROP]
    seen = set()
    violations = []
    for v in mine:
        k = (v["kind"], v["locus"])
        if k not in seen:
            seen.add(k)
            violations.append({"kind": v["kind"], "locus": v["locus"], "detail": v["detail"]})
    prefix = "req|" if PROP == "C03" else "resp|"
    states = [s for s in w["states"] if s.startswith(prefix) or s.startswith(("sched|", "tsched|"))]
    return {
        "violations": violations[:6],
        "spec": spec,
        "faults": w["faults"],
        "probes": w["probes"],
        "states": states,
        "nontrivial_keys": states,
        "fingerprint": w["fingerprint"],
        "sim_time": w["sim_time"],
        "sample": {"calls": w["n_calls"], "sessions": [{"client": {k: v for k, v in s["client"].items() if k in ("kind", "base_url", "timeout", "raise_on_unexpected_status")},
                                                         "groups": [[g["mode"], [(c["op"], c["variant"], c["server"].get("status"), c["server"].get("fault")) for c in g["calls"]]] for g in s["groups"][:4]]} for s in spec["sessions"][:1]],
                   "operations": len((spec["doc"].get("paths") or {}))},
        "log": w["log"],
    }


spec_size = clientsim.spec_size
shrink_candidates = clientsim.shrink_candidates

RULE = (
    "seed -> document (docgen, operations profile, plus single-parameter probe operations for cells the parser accepts) -> REAL generation "
    "and import -> 1-2 sessions of 5-40 calls on one client object: blocking calls one at a time, asyncio calls as groups of 1-5 "
    "concurrently scheduled tasks under virtual time with seed-drawn latencies, transport faults and task cancellation; twins repeat a "
    "call in the other flavour. Every recorded request is parsed the way a server would and compared with the wire reference model. "
    "Non-trivial/distinct = distinct (per-location parameter kinds + body kind, variant, sync/async, fault kind) tuples that were executed."
)
STATE_MEASURE = "sched|: distinct interleavings = completion orders of concurrently scheduled asyncio call groups (as permutations of start positions); req|: distinct (operation shape = per-location multiset of parameter kinds + body kind) x variant x sync/async/threads x fault kind; tsched|: distinct caller-thread interleavings (group size, finish order, number of switches capped at 6)"
ASSUMPTIONS = [
    "values are compared modulo the accepted serialisations of DESIGN A.2: the property fixes WHERE a value goes, not its spelling",
    "header/cookie canaries use unreserved characters only; path, query and body strings include reserved and non-ASCII characters (a path value is extracted from the RAW path segment by segment and must arrive percent-encoded inside its own slot; bare dot segments are excluded)",
    "cells where the wire form is undefined (lists in path/cookie/header, None in header) are excluded; probe cells are generated in dedicated operations",
    "httpx enforces timeouts inside real transports; here 'the timeout fired' is decided by the stub from the timeout value the real client attached",
]
