"""C04 — see DESIGN.md §3.2.  Thin wrapper over the shared client/server world (checks/clientsim.py): same
world, own seeds, own oracle subset (violations tagged C04)."""
from __future__ import annotations

from checks import clientsim

PROP = "C04"
LEVEL = "exploration"
FN_SEED = "checks.c04:run_seed"
FN_SPEC = "checks.c04:run_spec"
REAL = ["openapi_python_client generator", "generated package (imported and called)", "httpx Client/AsyncClient: URL merging, query/cookie/multipart/JSON encoding, response decoding", "asyncio Task/Future machinery"]
STUB = ["transport + API server (SimTransport/Server)", "event-loop clock (virtual time SimLoop)", "os.urandom (seeded stream, multipart boundary)", "jinja2 bytecode cache"]


def plan(tier: str, seed: int) -> dict:
    if tier == "quick":
        return {"n_runs": 10_000_000, "budget_s": 60, "min_runs": 30, "minimise_s": 40}
    return {"n_runs": 10_000_000, "budget_s": 900, "min_runs": 500, "minimise_s": 90}


def run_seed(args: dict, sandbox: str) -> dict:
    spec = clientsim.build_spec(args["seed"], PROP, args.get("tier", "quick"))
    res = run_spec({"spec": spec}, sandbox)
    if not res.get("violations"):
        res.pop("spec", None)
    return res


def run_spec(args: dict, sandbox: str) -> dict:
    spec = args["spec"]
    w = clientsim.run_world(spec, sandbox, want_log=bool(args.get("want_log")))
    mine = [v for v in w["all_violations"] if v["prop"] == PROP]
    seen = set()
    violations = []
    for v in mine:
        k = (v["kind"], v["locus"])
        if k not in seen:
            seen.add(k)
            violations.append({"kind": v["kind"], "locus": v["locus"], "detail": v["detail"]})
    prefix = "req|" if PROP == "C03" else "resp|"
    states = [s for s in w["states"] if s.startswith(prefix) or s.startswith(("sched|", "tsched|"))]
    return {
        "violations": violations[:6],
        "spec": spec,
        "faults": w["faults"],
        "probes": w["probes"],
        "states": states,
        "nontrivial_keys": states,
        "fingerprint": w["fingerprint"],
        "sim_time": w["sim_time"],
        "sample": {"calls": w["n_calls"], "sessions": [{"client": {k: v for k, v in s["client"].items() if k in ("kind", "base_url", "timeout", "raise_on_unexpected_status")},
                                                         "groups": [[g["mode"], [(c["op"], c["variant"], c["server"].get("status"), c["server"].get("fault")) for c in g["calls"]]] for g in s["groups"][:4]]} for s in spec["sessions"][:1]],
                   "operations": len((spec["doc"].get("paths") or {}))},
        "log": w["log"],
    }


spec_size = clientsim.spec_size
shrink_candidates = clientsim.shrink_candidates

RULE = (
    "same world as C03; per call the simulated server draws its behaviour: each documented (status, media type) with a schema-valid body "
    "made of canaries (JSON / +json / text/* / octet-stream / no content), undocumented statuses inside and outside http.HTTPStatus, both "
    "settings of raise_on_unexpected_status, detailed and plain variants, sync and asyncio flavours, latency and transport faults. "
    "Non-trivial/distinct = distinct (documented?, source, schema kind, status in HTTPStatus?, raise flag, variant, flavour) tuples executed."
)
STATE_MEASURE = "sched|: distinct interleavings (completion-order permutations of asyncio groups); resp|: distinct (response shape = documented/undocumented, source, schema kind) x in/outside HTTPStatus x raise flag x variant x sync/async/threads x status x media type x slow/fast; tsched|: distinct caller-thread interleavings (group size, finish order, number of switches capped at 6)"
ASSUMPTIONS = [
    "only schema-valid bodies and the media types the property lists are sent; union members are chosen so that no earlier member would (mis)take the value",
    "decoded values are compared in the normal forms of DESIGN A.3 (a model by its re-encoded dict and its class living in <pkg>.models)",
    "date-times are sent as +00:00 ISO strings so that re-encoding is the identity",
]
