"""C19 — generation writes only where told, never clobbers, converges on overwrite.

World: sandbox parent P with sentinels, one output location O, a pool of documents (a fraction
with hostile path-like names) and a HISTORY of operations: GEN / USER / CRASHGEN (crash before
FS op k, or after a prefix of the bytes of write k) / DISKERR (op k fails with an errno).
Reference model: tree(O) after a successful overwrite generation == fresh(doc, meta) ∪ user files.
Invariants are evaluated after every op and over the FS op log (i.e. at every crash point).
"""
from __future__ import annotations

import copy
import errno
import hashlib
import json
import os
import shutil
from typing import Any

from sim import docgen, rng

PROP = "C19"
LEVEL = "fault_enumeration"
FN_SEED = "checks.c19:run_seed"
FN_SPEC = "checks.c19:run_spec"
RULE = (
    "seed -> pool of 2-4 documents sharing a title (a fraction with hostile path-like titles/tags/schema names/operationIds) "
    "-> history of 3-10 ops over one output location: GEN(doc, meta, overwrite), USER(write/modify/delete), CRASHGEN(k[,torn]), "
    "DISKERR(k, errno); quick samples crash indices, thorough enumerates every FS-op index of a sampled generation in both "
    "crash flavours, each followed by an overwrite generation. Non-trivial = history with >= 2 generations against an existing "
    "location or >= 1 injected fault; distinct = distinct (op-kind sequence shape, fault index bucket) pairs."
)
STATE_MEASURE = "distinct tree digests of the output location reached + distinct (op-kind sequence, crash-index bucket) pairs"
REAL = ["typer/click CLI", "openapi_python_client generator incl. Project.build, pathlib, shutil.rmtree", "tmpfs file system"]
STUB = ["fault decisions of the FS interposition layer (crash / torn write / errno)", "jinja2 bytecode cache (in-memory)"]
ASSUMPTIONS = [
    "user files live in the output root, the package root or a user subdirectory - not under models/ or api/, which the generator documents as rebuilt; no symlinks",
    "a simulated crash unwinds the Python stack (buffers flush); torn writes are injected explicitly; no power-loss/fsync model",
    "convergence is judged only while every generation since the location was created shares package name, project name and metadata flavour (the property's proviso); otherwise only fresh ⊆ tree",
]

METAS = ["poetry", "pdm", "setup", "none"]
HOSTILE = ["../evil", "/abs/evil", "..", "a/b", "a\\b", ".", ".hidden", "trail/", "~root", "....//x", "../../../../tmp/x", "/",
           "x/../../y", "C:\\x", "%2e%2e%2fz", "名前/..", "a b/../c", "-rf", "..\\..\\w", "/dev/shm/zz", "sub/./dir", "../" * 8 + "q"]
ERRNOS = ["ENOSPC", "EIO", "EACCES", "EROFS", "EMFILE"]


def plan(tier: str, seed: int) -> dict:
    if tier == "quick":
        return {"n_runs": 10_000_000, "budget_s": 60, "min_runs": 30, "minimise_s": 40}
    return {"n_runs": 10_000_000, "budget_s": 900, "min_runs": 100, "minimise_s": 90}


# ---------------------------------------------------------------------- documents
def hostile_variant(doc: dict, r) -> dict:
    d = copy.deepcopy(doc)
    schemas = d.get("components", {}).get("schemas", {})
    ren = {}
    for name in list(schemas):
        if r.random() < 0.4:
            new = r.choice(HOSTILE) + name
            if r.random() < 0.5:
                new = name + r.choice(HOSTILE)
            ren[name] = new
    if ren:
        txt = json.dumps(d)
        for old, new in ren.items():
            txt = txt.replace(f"#/components/schemas/{old}\"", f"#/components/schemas/{json.dumps(new)[1:-1]}\"")
        d = json.loads(txt)
        sc = d["components"]["schemas"]
        d["components"]["schemas"] = {ren.get(k, k): v for k, v in sc.items()}
    for item in d.get("paths", {}).values():
        for m, op in item.items():
            if not isinstance(op, dict) or "responses" not in op:
                continue
            if r.random() < 0.5:
                op["tags"] = [r.choice(HOSTILE) + r.choice(["", "t", "Tag"]) for _ in range(r.choice([1, 2]))]
            if r.random() < 0.4:
                op["operationId"] = r.choice(HOSTILE) + op.get("operationId", "op")
            elif r.random() < 0.15:
                op.pop("operationId", None)
    return d


def make_pool(seed: int) -> tuple[dict[str, dict], bool, str]:
    r = rng.stream(seed, "pool")
    hostile = r.random() < 0.45
    title = "Sim API"
    if hostile and r.random() < 0.7:
        title = r.choice(HOSTILE) + r.choice(["", " api", "Svc"])
    n = r.choice([2, 2, 3, 4])
    docs = {}
    for i in range(n):
        doc, _ = docgen.generate(rng.stream(seed, "doc", i), size=r.choice(["tiny", "small", "small"]))
        doc["info"]["title"] = title
        if hostile:
            doc = hostile_variant(doc, r)
        docs[f"d{i}"] = doc
    if r.random() < 0.3:
        # degenerate successors: a document without any operation and/or without any schema (an earlier
        # generation's api/ or models/ content must not survive an overwrite with it)
        k = r.choice(sorted(docs))
        docs[k] = copy.deepcopy(docs[k])
        which = r.choice(["no-paths", "no-schemas", "both"])
        if which in ("no-paths", "both"):
            docs[k]["paths"] = {}
        if which in ("no-schemas", "both"):
            docs[k]["paths"] = {}
            docs[k].pop("components", None)
    if r.random() < 0.15:
        # a document with another title: the 'same names' proviso no longer holds for this history
        k = r.choice(sorted(docs))
        docs[k] = copy.deepcopy(docs[k])
        docs[k]["info"]["title"] = "Other Name"
    return docs, hostile, title


def build_ops(seed: int, docs: dict[str, dict], tier: str, out_mode: str = "explicit") -> list[dict]:
    r = rng.stream(seed, "ops")
    names = sorted(docs)
    meta = r.choice(METAS)
    mixed_meta = r.random() < 0.1 and out_mode == "explicit"  # a derived location depends on the flavour
    n = r.randint(3, 10)
    ops: list[dict] = []
    have_gen = False
    precreated = False
    if out_mode != "derived" and r.random() < 0.25:
        # the output location exists BEFORE the first generation: an empty directory (mktemp -d, a mounted volume), one
        # holding only hidden entries (a fresh git init), or one with the user's own files
        for _ in range(r.choice([1, 1, 2])):
            ops.append({"op": "USER", "action": r.choice(["mkdir-empty", "dotfiles", "write"]), "where": r.choice(["root", "subdir"]), "n": r.randrange(1000)})
        precreated = True
    if out_mode != "derived" and not precreated and r.random() < (0.6 if out_mode == "explicit-nested" else 0.08):
        # two generate commands WITHOUT --overwrite started at the same time against the location that does not exist yet
        # (two CI jobs, a double click): their file-system calls are interleaved by a seeded scheduler
        da = r.choice(names)
        ops.append({"op": "RACEGEN", "doc": da, "doc_b": da if r.random() < 0.5 else r.choice(names), "meta": meta,
                    "sched_seed": r.getrandbits(32), "switch_p": r.choice([0.05, 0.2, 0.5, 0.9])})
        have_gen = True
    for i in range(n):
        c = r.random()
        m = r.choice(METAS) if mixed_meta else meta
        if not have_gen or c < 0.45:
            ops.append({"op": "GEN", "doc": r.choice(names), "meta": m, "overwrite": (have_gen and r.random() < 0.75) or (precreated and not have_gen and r.random() < 0.5)})
            have_gen = True
        elif c < 0.65:
            ops.append({"op": "USER", "action": r.choice(["write", "write", "modify", "delete", "write-generated", "delete-generated", "rmdir-models"] * 3 + ["link-subpackage"]),
                        "where": r.choice(["root", "package", "subdir", "pkgsubdir"]), "n": r.randrange(1000)})
        elif c < 0.88:
            # hard: the process is KILLED (no clean-up handler reaches the disk); soft: it dies of an exception
            ops.append({"op": "CRASHGEN", "doc": r.choice(names), "meta": m, "overwrite": r.random() < 0.9, "kfrac": r.random(),
                        "torn": r.choice([None, None, 0.0, 0.5, 0.9]), "hard": r.random() < 0.5})
        else:
            # persistent: the condition stays (a full disk stays full), every later mutating call of the command fails too
            ops.append({"op": "DISKERR", "doc": r.choice(names), "meta": m, "overwrite": True, "kfrac": r.random(), "errno": r.choice(ERRNOS),
                        "persistent": r.random() < 0.5})
    # a history always ends with a successful overwrite generation so that convergence is judged
    ops.append({"op": "GEN", "doc": r.choice(names), "meta": meta if not mixed_meta else r.choice(METAS), "overwrite": True})
    # --file-encoding: one value for the whole history, in a tenth of the histories another one per command (the tree must
    # converge to what a fresh generation WITH THE CURRENT OPTIONS writes)
    enc = r.choice([None, None, None, None, None, None, "utf-16", "cp1252", "utf-8-sig"])
    per_op = r.random() < 0.1
    for o in ops:
        if "doc" in o:
            e = r.choice([None, "utf-16", "utf-8-sig", "cp1252"]) if per_op else enc
            if e:
                o["enc"] = e
    if tier == "thorough" and r.random() < 0.5:
        ops.append({"op": "ENUMCRASH", "doc": r.choice(names), "meta": meta, "stride": 1})
    elif tier == "quick" and r.random() < 0.1:
        ops.append({"op": "ENUMCRASH", "doc": r.choice(names), "meta": meta, "stride": 7, "offset": r.randrange(7)})
    return ops


def run_seed(args: dict, sandbox: str) -> dict:
    seed = args["seed"]
    docs, hostile, _title = make_pool(seed)
    r = rng.stream(seed, "world")
    out_mode = r.choice(["explicit", "explicit", "explicit-relative", "derived"])
    if r.random() < 0.06:
        out_mode = "explicit-nested"  # --output-path below a parent directory that does not exist (yet)
    if out_mode == "derived":
        # one output location per history: a derived location is a function of the title
        for d in docs.values():
            d["info"]["title"] = _title
    spec = {
        "hashseed": seed % 4,
        "docs": docs,
        "ops": build_ops(seed, docs, args.get("tier", "quick"), out_mode),
        "out_mode": out_mode,
        "hostile": hostile,
        "config": {"generate_all_tags": r.random() < 0.3},
        "name_overrides": r.choice([None, None, None, None, {"package_name_override": "custom_pkg"}, {"project_name_override": "custom-proj"},
                                    {"project_name_override": "custom-proj", "package_name_override": "custom_pkg"}]),
        # an idempotent custom post-hook (a real subprocess run in the project directory) in a third of the histories
        "post_hooks": r.choice([[], [], ["touch hook_ran.txt"]]),
        # a custom template directory (beside the output location, inside the watched parent) in a fifth of the histories
        "custom_templates": r.random() < 0.2,
    }
    res = run_spec({"spec": spec, "want_log": args.get("want_log")}, sandbox)
    if not res.get("violations"):
        res.pop("spec", None)
    return res


# ---------------------------------------------------------------------- the world
class World:
    def __init__(self, sandbox: str, spec: dict) -> None:
        from sim import genrun

        self.genrun = genrun
        self.sandbox = sandbox
        self.spec = spec
        self.P = os.path.join(sandbox, "P")
        self.cwd = os.path.join(self.P, "work")
        os.makedirs(self.cwd)
        self.cfg = genrun.write_config(sandbox, {"post_hooks": list(spec.get("post_hooks") or []), **(spec.get("config") or {}), **(spec.get("name_overrides") or {})})
        self.docpaths = {}
        for k, d in spec["docs"].items():
            p = os.path.join(sandbox, f"{k}.json")
            with open(p, "w") as f:
                json.dump(d, f)
            self.docpaths[k] = p
        # sentinels around the future output location
        self._w(os.path.join(self.P, "sibling.txt"), b"sibling\n")
        self._w(os.path.join(self.P, "out-extra", "keep.txt"), b"keep\n")
        self._w(os.path.join(self.P, "outx"), b"file whose name extends the output name\n")
        self._w(os.path.join(self.cwd, "cwd-sentinel.txt"), b"cwd\n")
        self._w(os.path.join(self.cwd, "sim-api-client-old", "keep.txt"), b"keep\n")
        self._w(os.path.join(self.cwd, "sim_api_client.bak"), b"bak\n")
        self._w(os.path.join(self.P, "models", "not-yours.py"), b"# parent-level models dir\n")
        self.templates_dir: str | None = None
        if spec.get("custom_templates"):
            self.templates_dir = os.path.join(self.P, "my-templates")
            self._w(os.path.join(self.templates_dir, "README.md.jinja"), b"# custom readme for {{ project_name }}\n")
            self._w(os.path.join(self.templates_dir, ".gitignore.jinja"), b"custom-ignored/\n")
        self.gen_counter = 0
        self.explicit = spec["out_mode"] in ("explicit", "explicit-relative", "explicit-nested")
        # a relative --output-path is resolved against the working directory (P/work): ../out/ == P/out
        self.out_arg = None if spec["out_mode"] != "explicit-relative" else "../out/"
        self.O: str | None = os.path.join(self.P, "out") if self.explicit else None
        if spec["out_mode"] == "explicit-nested":
            # the parents of the location do not exist: whether a generate command creates them or fails is its own business
            # (ancestor directories of the location are not "outside" it), but two racing commands still may not both win
            self.O = os.path.join(self.P, "new-parent", "deeper", "out")
        self.user_files: dict[str, bytes] = {}
        self.user_dirs: set[str] = set()  # directories the user created stay, also once emptied
        self.expected_known = False  # tree(O) == fresh ∪ user files is currently expected
        self.lineage: set[tuple] = set()
        self.fresh_cache: dict[str, dict] = {}
        self.last_fresh: dict | None = None
        self.violations: list[dict] = []
        self.log: list[str] = []
        self.faults: dict[str, int] = {}
        self.probes: dict[str, int] = {}
        self.states: set[str] = set()
        self.outside0 = self.outside_snapshot()
        self.last_pkg: str | None = None
        self.n_gen_existing = 0

    @staticmethod
    def _w(path: str, data: bytes) -> None:
        os.makedirs(os.path.dirname(path), exist_ok=True)
        with open(path, "wb") as f:
            f.write(data)

    def probe(self, k: str, n: int = 1) -> None:
        self.probes[k] = self.probes.get(k, 0) + n

    def viol(self, kind: str, locus: str, detail: str, needs_fault: bool = False) -> None:
        self.violations.append({"kind": kind, "locus": locus, "detail": detail, "needs_fault": needs_fault})

    # ------------------------------------------------------------------ observation
    def outside_snapshot(self) -> dict:
        snap = self.genrun.snapshot(self.P)
        if self.O is not None:
            rel = os.path.relpath(self.O, self.P)
            anc = self._ancestors()
            snap = {k: v for k, v in snap.items() if not (k == rel or k.startswith(rel + os.sep) or k in anc)}
        return snap

    def _ancestors(self) -> set[str]:
        """proper ancestors of the output location below the watched parent (only non-empty for a nested location)"""
        out: set[str] = set()
        if self.O is not None and self.spec.get("out_mode") == "explicit-nested":
            d = os.path.dirname(os.path.relpath(self.O, self.P))
            while d and d != ".":
                out.add(d)
                d = os.path.dirname(d)
        return out

    def tree(self) -> dict:
        return self.genrun.snapshot(self.O) if self.O and os.path.isdir(self.O) else {}

    def argv(self, op: dict, out: str | None = None) -> list[str]:
        a = ["generate", "--path", self.docpaths[op["doc"]], "--config", self.cfg, "--meta", op["meta"]]
        if op.get("overwrite"):
            a.append("--overwrite")
        if op.get("enc"):
            a += ["--file-encoding", op["enc"]]
        if self.templates_dir:
            a += ["--custom-template-path", self.templates_dir]
        target = out if out is not None else ((self.out_arg or self.O) if self.explicit else None)
        if target is not None:
            a += ["--output-path", target]
        return a

    def fresh(self, op: dict) -> dict:
        """What the real generator writes into an empty location, in a separate sandbox."""
        key = f"{op['doc']}|{op['meta']}|{op.get('enc')}"
        if key not in self.fresh_cache:
            base = os.path.join(self.sandbox, "fresh", hashlib.sha256(key.encode()).hexdigest()[:12])
            os.makedirs(base)
            cwd = os.getcwd()
            os.chdir(base)
            try:
                out = os.path.join(base, "out")
                res = self.genrun.run_cli(self.argv(dict(op, overwrite=False), out=out))
            finally:
                os.chdir(cwd)
            ok = res["exception"] is None and not res["base_exception"] and os.path.isdir(out)
            self.fresh_cache[key] = {"ok": ok, "tree": self.genrun.snapshot(out) if ok else {}, "res": res}
        return self.fresh_cache[key]

    def names_of(self, op: dict) -> tuple:
        return (self.spec["docs"][op["doc"]]["info"]["title"], op["meta"])

    # ------------------------------------------------------------------ invariants
    def check_confinement(self, seam, label: str, before_outside: dict) -> None:
        O = self.O
        for rec in seam.escapes:
            self.viol("write-outside-output", rec["op"], f"{label}: mutating op {rec['op']} on {rec['path']} was attempted outside the sandbox parent (blocked by the simulator)")
            return
        for rec in seam.log:
            if not (rec.get("ok") or rec.get("fault") == "torn-write"):
                continue  # only operations that were performed change the file system
            p = rec["path"]
            if rec.get("foreign"):
                if p.startswith("ABS:" + os.path.join(self.sandbox, "")) and not p.startswith("ABS:" + self.P):
                    continue  # harness-owned paths in the sandbox (config, fresh trees)
                self.viol("write-outside-output", rec["op"], f"{label}: mutating op {rec['op']} on {p} (outside the sandbox parent)")
                return
            ap = os.path.join(self.P, p)
            if O is None:
                # derived mode, location not known yet: must be a direct child of the cwd
                rel = os.path.relpath(ap, self.cwd)
                if rel.startswith("..") or os.path.isabs(rel):
                    self.viol("write-outside-output", rec["op"], f"{label}: derived-location run touched {p}, outside the working directory")
                    return
                continue
            if rec["op"] == "mkdir" and os.path.relpath(ap, self.P) in self._ancestors():
                continue  # creating the missing parents of the location it was told to use
            if not (ap == O or ap.startswith(O + os.sep)):
                self.viol("write-outside-output", rec["op"], f"{label}: mutating op {rec['op']} on {p}, outside output location {os.path.relpath(O, self.P)}")
                return
        now = self.outside_snapshot()
        if now != before_outside:
            diff = sorted(set(now) ^ set(before_outside))[:5]
            changed = [k for k in now if k in before_outside and now[k] != before_outside[k]][:5]
            self.viol("outside-changed", "snapshot", f"{label}: files outside the output location changed: new/removed={diff} modified={changed}")

    def check_user_files(self, label: str, needs_fault: bool) -> None:
        for rel, data in self.user_files.items():
            p = os.path.join(self.O, rel)
            try:
                with open(p, "rb") as f:
                    cur = f.read()
            except OSError:
                self.viol("user-file-lost", os.path.dirname(rel) or ".", f"{label}: user file {rel} disappeared", needs_fault)
                return
            if cur != data:
                self.viol("user-file-modified", os.path.dirname(rel) or ".", f"{label}: user file {rel} changed", needs_fault)
                return

    def check_convergence(self, op: dict, label: str, needs_fault: bool) -> None:
        fr = self.fresh(op)
        if not fr["ok"]:
            self.probe("fresh-generation-failed")
            return
        tree = self.tree()
        want = dict(fr["tree"])
        homogeneous = len(self.lineage) == 1
        if homogeneous:
            for rel, data in self.user_files.items():
                want[rel] = ["f", hashlib.sha256(data).hexdigest(), len(data)]
                d = os.path.dirname(rel)
                while d:
                    want.setdefault(d, ["d"])
                    d = os.path.dirname(d)
            for d in self.user_dirs:
                want.setdefault(d, ["d"])
            if tree != want:
                extra = sorted(set(tree) - set(want))
                missing = sorted(set(want) - set(tree))
                differ = sorted(k for k in tree if k in want and tree[k] != want[k])
                if extra:
                    kind, locus = "stale-file", _locus(extra[0])
                elif missing:
                    kind, locus = "missing-file", _locus(missing[0])
                else:
                    kind, locus = "content-differs", _locus(differ[0])
                self.viol(kind, locus, f"{label}: tree != fresh ∪ user files: extra={extra[:6]} missing={missing[:6]} differ={differ[:6]}", needs_fault)
            else:
                self.probe("converged-exact")
        else:
            self.probe("converged-relaxed(proviso)")
            for rel, v in want.items():
                if tree.get(rel) != v:
                    self.viol("fresh-not-contained", _locus(rel), f"{label}: {rel} of the fresh tree is absent or different (mixed-lineage history)", needs_fault)
                    break

    # ------------------------------------------------------------------ operations
    def do_gen(self, op: dict, crash_at: int | None = None, torn: float | None = None, error_at: int | None = None,
               err: str | None = None, label: str = "", hard: bool = False, persistent: bool = False) -> dict:
        from sim import fsseam

        existed = bool(self.O and os.path.lexists(self.O))
        before_tree = self.tree()
        before_outside = self.outside_snapshot()
        cwd_before = set(os.listdir(self.cwd))
        seam = fsseam.FsSeam(self.P, crash_at=crash_at, torn=torn, error_at=error_at,
                             error_errno=getattr(errno, err) if err else errno.ENOSPC, hard=hard, error_persistent=persistent)
        # the commands of a history are calls into ONE long-lived process (library use): it works wherever the previous call
        # left it - normally the directory it started in
        proc_cwd = getattr(self, "proc_cwd", None) or self.cwd
        os.chdir(proc_cwd if os.path.isdir(proc_cwd) else self.cwd)
        # every generate command is a separate PROCESS in reality: give each its own process id
        self.gen_counter += 1
        real_getpid = os.getpid
        os.getpid = lambda n=self.gen_counter: 40_000 + 17 * n  # type: ignore[assignment]
        try:
            res = self.genrun.run_cli(self.argv(op), around=lambda: seam)
        finally:
            os.getpid = real_getpid  # type: ignore[assignment]
        try:
            self.proc_cwd = os.getcwd()
        except OSError:
            self.proc_cwd = self.cwd
        if seam.dead:
            self.proc_cwd = self.cwd  # the process was killed: the next command is a new process, started where the user works
        if os.path.realpath(self.proc_cwd) != os.path.realpath(self.cwd):
            self.probe("process-cwd-left-changed")
        os.chdir(self.sandbox)
        self.log.append(f"op {label} {op['op']} doc={op['doc']} meta={op['meta']} overwrite={op.get('overwrite')} crash_at={crash_at} torn={torn} hard={hard} error_at={error_at}:{err} persistent={persistent} -> exit={res['exit_code']} exc={res['exception']} fired={seam.fired}")
        self.log.extend(seam.lines())
        if self.O is None:
            new = sorted(set(os.listdir(self.cwd)) - cwd_before)
            if len(new) == 1 and os.path.isdir(os.path.join(self.cwd, new[0])):
                self.O = os.path.join(self.cwd, new[0])
                before_outside = {k: v for k, v in before_outside.items()}
            elif len(new) > 1:
                self.viol("write-outside-output", "derived-location", f"{label}: one generate command created several entries in the working directory: {new}")
        self.check_confinement(seam, label, before_outside)
        faulted = seam.fired is not None
        if seam.fired and seam.fired != "escape-blocked":
            self.faults[seam.fired if not seam.fired.startswith("errno") else "disk-" + seam.fired] = self.faults.get(seam.fired if not seam.fired.startswith("errno") else "disk-" + seam.fired, 0) + 1
        diags = res["diagnostics"] or []
        has_error = any(d["level"] == "ERROR" for d in diags)
        completed = (not faulted) and res["exception"] is None and not res["base_exception"] and res["exit_code"] is not None and not has_error
        if existed:
            self.n_gen_existing += 1
        if existed and not op.get("overwrite"):
            # no-overwrite on an existing location: untouched + error reported, whatever the faults
            performed = [r_ for r_ in seam.mutating_ok() if not r_.get("foreign")]
            if performed or self.tree() != before_tree:
                self.viol("clobbered-without-overwrite", performed[0]["op"] if performed else "snapshot",
                          f"{label}: existing output location modified without --overwrite: {[(p['op'], p['path']) for p in performed[:5]]}")
            if not faulted and not (has_error and res["exit_code"] == 1):
                self.viol("no-error-without-overwrite", f"exit={res['exit_code']}", f"{label}: existing location, no --overwrite, but exit={res['exit_code']} diagnostics={[d['level'] for d in diags]}")
            self.probe("no-overwrite-on-existing")
            return {"completed": False, "n_ops": seam.k, "res": res}
        if self.O is not None and os.path.isdir(self.O):
            if not existed:
                self.lineage = set()
            self.lineage.add(self.names_of(op))
        if self.user_files and self.O:
            self.check_user_files(label, needs_fault=self.had_fault)
        if completed:
            if existed:
                self.probe("overwrite-over-existing")
                if not self.expected_known:
                    self.probe("overwrite-over-crashed-tree")
            self.check_convergence(op, label, needs_fault=self.had_fault)
            self.expected_known = True
        else:
            self.expected_known = False
            if faulted:
                self.had_fault = True
            elif res["exception"] is not None:
                self.probe("gen-unhandled-exception(not judged here: C06)")
            elif has_error:
                self.probe("gen-error-diagnostic")
        self.states.add("tree|" + self.genrun.snapshot_digest(self.tree())[:16])
        return {"completed": completed, "n_ops": seam.k, "res": res}

    had_fault = False

    def count_ops(self, op: dict) -> int:
        """FS-op count of this generation against a scratch copy of the current state."""
        from sim import fsseam

        scratch = os.path.join(self.sandbox, "scratchP")
        shutil.rmtree(scratch, ignore_errors=True)
        shutil.copytree(self.P, scratch, symlinks=True)
        relO = os.path.relpath(self.O, self.P) if self.O else None
        seam = fsseam.FsSeam(scratch)
        os.chdir(os.path.join(scratch, "work"))
        a = self.argv(op, out=os.path.join(scratch, relO) if (relO and self.explicit) else None)
        try:
            self.genrun.run_cli(a, around=lambda: seam)
        finally:
            os.chdir(self.sandbox)
            shutil.rmtree(scratch, ignore_errors=True)
        return seam.k

    def do_user(self, op: dict, label: str) -> None:
        if not self.O or not os.path.isdir(self.O):
            if self.explicit and self.O and op["action"] in ("mkdir-empty", "dotfiles", "write") and not os.path.lexists(self.O):
                os.makedirs(self.O)  # the user creates the output location before the first generation
                self.probe("output-location-precreated")
            else:
                self.log.append(f"op {label} USER skipped (no output location yet)")
                return
        pkg = self.package_dir()
        where = {"root": "", "package": pkg, "subdir": "user_notes", "pkgsubdir": os.path.join(pkg, "my_ext") if pkg else "my_ext"}[op["where"]]
        act = op["action"]
        n = op["n"]
        if act == "write":
            rel = os.path.join(where, f"user_{n}.txt" if op["where"] in ("root", "subdir") else f"user_{n}.py")
            data = f"# user content {n}\n".encode() * (1 + n % 3)
            self._w(os.path.join(self.O, rel), data)
            self.user_files[rel] = data
            d = os.path.dirname(rel)
            while d:
                self.user_dirs.add(d)
                d = os.path.dirname(d)
        elif act == "dotfiles":
            for rel, data in ((".env", f"TOKEN={n}\n".encode()), (os.path.join(".git", "HEAD"), b"ref: refs/heads/main\n"), (os.path.join(".hidden", f"keep_{n}"), b"")):
                if rel in self.user_files or os.path.lexists(os.path.join(self.O, rel)):
                    continue
                self._w(os.path.join(self.O, rel), data)
                self.user_files[rel] = data
                if os.path.dirname(rel):
                    self.user_dirs.add(os.path.dirname(rel))
        elif act == "mkdir-empty":
            pass
        elif act == "modify" and self.user_files:
            rel = sorted(self.user_files)[n % len(self.user_files)]
            data = self.user_files[rel] + f"# edit {n}\n".encode()
            self._w(os.path.join(self.O, rel), data)
            self.user_files[rel] = data
        elif act == "delete" and self.user_files:
            rel = sorted(self.user_files)[n % len(self.user_files)]
            os.unlink(os.path.join(self.O, rel))
            del self.user_files[rel]
        elif act in ("write-generated", "delete-generated"):
            # files written by the post-hook subprocess (not by the generator) are not rewritten by a regeneration
            gen = sorted(k for k, v in self.tree().items() if v[0] == "f" and k not in self.user_files and os.path.basename(k) != "hook_ran.txt")
            if gen:
                rel = gen[n % len(gen)]
                if act == "write-generated":
                    with open(os.path.join(self.O, rel), "ab") as f:
                        f.write(b"\n# local edit of a generated file\n")
                else:
                    os.unlink(os.path.join(self.O, rel))
                self.expected_known = False
        elif act == "link-subpackage":
            # the user moved the generated models/ (or api/) package to a directory OUTSIDE the output location and left a symbolic
            # link in its place (a package shared between two checkouts).  A later --overwrite cannot empty it (rmtree refuses a
            # link): whatever the command then does, it must not write through the link into the shared directory
            sub = ("models", "api")[n % 2]
            src = os.path.join(self.O, pkg, sub)
            dst = os.path.join(self.P, f"shared_{sub}_{n}")
            if os.path.isdir(src) and not os.path.islink(src) and not os.path.lexists(dst):
                shutil.move(src, dst)
                os.symlink(dst, src)
                self.expected_known = False
                self.linked = True
                self.probe("user-linked-subpackage")
        elif act == "rmdir-models":
            shutil.rmtree(os.path.join(self.O, pkg, "models"), ignore_errors=True)
            self.expected_known = False
        self.log.append(f"op {label} USER {act} {op['where']} n={n}")

    def package_dir(self) -> str:
        """Relative package directory inside O ('' for meta none): the directory holding client.py."""
        for k in sorted(self.tree()):
            if os.path.basename(k) == "client.py":
                return os.path.dirname(k)
        return ""

    def run_op(self, i: int, op: dict) -> None:
        label = f"#{i}"
        kind = op["op"]
        if kind == "GEN":
            self.do_gen(op, label=label)
        elif kind == "USER":
            self.do_user(op, label)
        elif kind in ("CRASHGEN", "DISKERR"):
            if "k" in op:
                k = op["k"]
            else:
                n = self.count_ops(op)
                k = int(op["kfrac"] * n) if n else 0
                op["k"] = k
                op["n_ops"] = n
            if kind == "CRASHGEN":
                self.do_gen(op, crash_at=k, torn=op.get("torn"), label=label, hard=bool(op.get("hard")))
            else:
                self.do_gen(op, error_at=k, err=op["errno"], label=label, persistent=bool(op.get("persistent")))
        elif kind == "ENUMCRASH":
            self.enum_crash(i, op)
        elif kind == "RACEGEN":
            self.do_race(op, label)
        else:
            raise ValueError(kind)

    def do_race(self, op: dict, label: str) -> None:
        """Two generate commands without --overwrite, as two 'processes' (threads of this interpreter calling the
        library entry point) whose mutating file-system calls are interleaved by sim.threads.ThreadSched: at every such
        call the seeded scheduler may let the other one run.  Whatever the interleaving, exactly one may generate; the
        other must report the existing directory and touch nothing."""
        import contextlib
        import io
        import threading
        from pathlib import Path

        import openapi_python_client as opc
        from openapi_python_client.config import Config, ConfigFile, MetaType

        from sim import fsseam
        from sim import threads as simthreads

        if not self.explicit or self.O is None or os.path.lexists(self.O):
            self.log.append(f"op {label} RACEGEN skipped (location exists or is derived)")
            return
        before_outside = self.outside_snapshot()
        docs = [op["doc"], op.get("doc_b") or op["doc"]]
        gens = [{"op": "GEN", "doc": d, "meta": op["meta"], "overwrite": False} for d in docs]
        cfgs = []
        for d in docs:
            cf = ConfigFile.load_from_path(Path(self.cfg))
            cfgs.append(Config.from_sources(cf, MetaType(op["meta"]), Path(self.docpaths[d]), "utf-8", False, Path(self.O)))
        idents: dict[int, int] = {}
        pids: dict[int, int] = {}
        self.gen_counter += 2

        def runner(i: int):  # type: ignore[no-untyped-def]
            def run() -> dict:
                idents[i] = threading.get_ident()
                pids[threading.get_ident()] = 40_000 + 17 * (self.gen_counter - 1 + i)
                try:
                    errs = opc.generate(config=cfgs[i], custom_template_path=Path(self.templates_dir) if self.templates_dir else None)
                    return {"errors": [(e.level.name, e.header or "", e.detail or "") for e in errs]}
                except BaseException as e:  # noqa: BLE001
                    return {"exc": f"{type(e).__name__}: {e}"[:300]}
            return run

        seam = fsseam.FsSeam(self.P)
        sched = simthreads.ThreadSched(rng.stream(int(op.get("sched_seed") or 0), "race"), (), float(op.get("switch_p") or 0.2))
        real_getpid = os.getpid
        os.getpid = lambda: pids.get(threading.get_ident(), 39_999)  # type: ignore[assignment]
        os.chdir(self.cwd)
        fsseam.YIELD = sched.yield_point
        try:
            with contextlib.redirect_stdout(io.StringIO()), seam:
                results = sched.run([runner(0), runner(1)])
        finally:
            fsseam.YIELD = None
            os.getpid = real_getpid  # type: ignore[assignment]
            os.chdir(self.sandbox)
        self.log.append(f"op {label} RACEGEN docs={docs} meta={op['meta']} switches={len(sched.switches)} finish={sched.finish_order} -> {[('exc' if 'exc' in r_ else [e[0] for e in r_['errors']]) for r_ in results]}")
        self.log.extend(seam.lines())
        self.probe("race-generations")
        if sched.switches:
            self.probe("race-interleaved")
        self.states.add(f"race|{len(sched.switches) > 0}|{sched.finish_order}")
        self.check_confinement(seam, label, before_outside)
        ok = [i for i, r_ in enumerate(results) if "errors" in r_ and not any(e[0] == "ERROR" for e in r_["errors"])]
        refused = [i for i, r_ in enumerate(results) if "errors" in r_ and any(e[0] == "ERROR" and "already exists" in e[2] for e in r_["errors"])]
        crashed = [i for i, r_ in enumerate(results) if "exc" in r_]
        if crashed:
            self.probe("race-exception(not judged here: C06)")
            self.log.append(f"race exception: {[results[i]['exc'] for i in crashed]}")
            self.expected_known = False
            self.had_fault = True
            return
        if len(ok) == 2:
            self.viol("clobbered-without-overwrite", "race:both-generated", f"{label}: two concurrent generate commands without --overwrite BOTH generated into the same new directory (no error for the second); interleaving: {len(sched.switches)} switches, finish order {sched.finish_order}")
            self.expected_known = False
            return
        for i in refused:
            mine = [r_ for r_ in seam.mutating_ok() if r_.get("tid") == idents.get(i) and not r_.get("foreign")]
            if mine:
                self.viol("clobbered-without-overwrite", "race:" + mine[0]["op"], f"{label}: the command that reported 'Directory already exists' still changed the tree: {[(m['op'], m['path']) for m in mine[:5]]}")
                return
        if len(ok) == 1 and len(refused) == 1:
            self.lineage = {self.names_of(gens[ok[0]])}
            self.check_convergence(gens[ok[0]], label, needs_fault=False)
            self.expected_known = True
            self.probe("race-one-winner")
        else:
            self.viol("no-error-without-overwrite", "race:outcomes", f"{label}: concurrent commands ended with {[r_.get('errors') for r_ in results]}")

    def enum_crash(self, i: int, op: dict) -> None:
        """Enumerate crash indices of one overwrite generation from the current state; each crash is
        followed by an overwrite generation that must converge."""
        gen = {"op": "GEN", "doc": op["doc"], "meta": op["meta"], "overwrite": True}
        n = self.count_ops(gen)
        saved = os.path.join(self.sandbox, "savedP")
        shutil.rmtree(saved, ignore_errors=True)
        shutil.copytree(self.P, saved, symlinks=True)
        state = (dict(self.user_files), self.expected_known, set(self.lineage), self.O, self.had_fault, set(self.user_dirs))
        stride = op.get("stride", 1)
        ks = list(range(op.get("offset", 0) % max(1, stride), n, stride))
        self.probe("enumcrash-indices", len(ks))
        for k in ks:
            for torn in (None, 0.5):
                nviol = len(self.violations)
                hard = (k + (1 if torn else 0)) % 2 == 1  # alternate kill / exception over the enumerated indices
                self.do_gen(dict(gen, op="CRASHGEN"), crash_at=k, torn=torn, label=f"#{i}.k{k}.{'torn' if torn else 'pre'}{'.kill' if hard else ''}", hard=hard)
                self.do_gen(gen, label=f"#{i}.k{k}.{'torn' if torn else 'pre'}.recover")
                if len(self.violations) > nviol:
                    # explicit failing sub-history for replay / minimisation
                    self.failing_suffix = [dict(gen, op="CRASHGEN", k=k, torn=torn, hard=hard), gen]
                    return
                shutil.rmtree(self.P)
                shutil.copytree(saved, self.P, symlinks=True)
                self.user_files, self.expected_known, self.lineage, self.O, self.had_fault = dict(state[0]), state[1], set(state[2]), state[3], state[4]
                self.user_dirs = set(state[5])
        shutil.rmtree(saved, ignore_errors=True)

    failing_suffix: list | None = None


def _locus(rel: str) -> str:
    import re as _re

    rel = _re.sub(r"\d+", "N", rel)  # process ids, counters: not part of a violation class
    parts = rel.split(os.sep)
    for marker in ("models", "api"):
        if marker in parts:
            return f"{marker}/*"
    return parts[-1] if len(parts) <= 2 else "/".join(parts[-2:])


def run_spec(args: dict, sandbox: str) -> dict:
    spec = args["spec"]
    w = World(sandbox, spec)
    w.log.append(f"spec {hashlib.sha256(json.dumps(spec, sort_keys=True).encode()).hexdigest()[:16]} hashseed={os.environ.get('PYTHONHASHSEED')}")
    ops = spec["ops"]
    done = 0
    for i, op in enumerate(ops):
        w.run_op(i, op)
        done = i + 1
        if w.violations:
            break
    out_spec = spec
    if w.violations and w.failing_suffix is not None:
        out_spec = dict(spec, ops=[o for o in ops[: done - 1]] + w.failing_suffix)
    shape = ",".join(_shape(o) for o in ops[:done])
    buckets = [f"{o['op']}@{min(9, int(10 * o['k'] / max(1, o.get('n_ops', o['k'] + 1))))}" for o in ops[:done] if "k" in o]
    n_faults = sum(w.faults.values())
    return {
        "violations": w.violations[:3],
        "spec": out_spec,
        "faults": w.faults,
        "probes": dict(w.probes, **{"hostile-names": 1 if spec.get("hostile") else 0, "derived-location": 0 if w.explicit else 1}),
        "states": sorted(w.states) + [f"shape|{shape}|{','.join(buckets)}"],
        "nontrivial_keys": [f"{shape}|{','.join(buckets)}"] if (w.n_gen_existing >= 2 or n_faults >= 1) else [],
        "fingerprint": rng.fingerprint(w.log),
        "sim_time": 0.0,
        "sample": {"ops": [_brief(o) for o in ops[:done]], "out_mode": spec["out_mode"], "hostile": spec.get("hostile"),
                   "titles": sorted({d["info"]["title"] for d in spec["docs"].values()}), "final_tree_files": len(w.tree())},
        "log": w.log if args.get("want_log") else None,
    }


def _shape(o: dict) -> str:
    if o["op"] == "GEN":
        return "G" + ("o" if o.get("overwrite") else "")
    if o["op"] == "USER":
        return "U" + o["action"][0]
    if o["op"] == "RACEGEN":
        return "R"
    if o["op"] == "CRASHGEN":
        return "C" + ("t" if o.get("torn") is not None else "") + ("k" if o.get("hard") else "")
    if o["op"] == "DISKERR":
        return "D"
    return "E"


def _brief(o: dict) -> dict:
    return {k: v for k, v in o.items() if k in ("op", "doc", "meta", "overwrite", "k", "torn", "errno", "action", "where", "n_ops", "hard", "persistent", "enc", "doc_b", "sched_seed", "switch_p")}


# ---------------------------------------------------------------------- shrinking
def spec_size(spec: dict) -> dict:
    return {"ops": len(spec["ops"]), "docs": len(spec["docs"]), "doc_nodes": sum(docgen.count_nodes(d) for d in spec["docs"].values())}


def shrink_candidates(spec: dict) -> list[dict]:
    from sim import driver

    out: list[dict] = []
    ops = spec["ops"]

    def with_ops(new_ops: list[dict]) -> dict:
        s = copy.deepcopy(spec)
        s["ops"] = copy.deepcopy(new_ops)
        used = {o["doc"] for o in new_ops if "doc" in o} | {o["doc_b"] for o in new_ops if o.get("doc_b")}
        s["docs"] = {k: v for k, v in s["docs"].items() if k in used} or s["docs"]
        return s

    # freeze kfrac into k first (ops were annotated in place by the failing run only in its own process)
    # drop ops: halves, then single ops
    n = len(ops)
    if n > 1:
        out.append(with_ops(ops[n // 2 :]))
        out.append(with_ops(ops[: n // 2]))
        for i in range(n):
            out.append(with_ops(ops[:i] + ops[i + 1 :]))
    # simplify ops
    for i, o in enumerate(ops):
        if o["op"] in ("CRASHGEN", "DISKERR"):
            out.append(with_ops(ops[:i] + [dict(o, op="GEN")] + ops[i + 1 :]))
            if o.get("hard"):
                out.append(with_ops(ops[:i] + [dict(o, hard=False)] + ops[i + 1 :]))
            if o.get("persistent"):
                out.append(with_ops(ops[:i] + [dict(o, persistent=False)] + ops[i + 1 :]))
            if o.get("torn") is not None:
                out.append(with_ops(ops[:i] + [dict(o, torn=None)] + ops[i + 1 :]))
        if o.get("enc"):
            out.append(with_ops([{k: v for k, v in x.items() if k != "enc"} for x in ops]))
        if o.get("meta") not in (None, "none"):
            out.append(with_ops([dict(x, meta="none") if "meta" in x else x for x in ops]))
            break
    # all ops on one document
    docs_used = sorted({o["doc"] for o in ops if "doc" in o} | {o["doc_b"] for o in ops if o.get("doc_b")})
    if len(docs_used) > 1:
        for d in docs_used:
            out.append(with_ops([dict(x, doc=d, **({"doc_b": d} if x.get("doc_b") else {})) if "doc" in x else x for x in ops]))
    if spec.get("out_mode") != "explicit":
        s = copy.deepcopy(spec)
        s["out_mode"] = "explicit"
        out.append(s)
    if spec.get("name_overrides"):
        s = copy.deepcopy(spec)
        s["name_overrides"] = None
        out.append(s)
    if any((spec.get("config") or {}).values()):
        s = copy.deepcopy(spec)
        s["config"] = {}
        out.append(s)
    if spec.get("post_hooks"):
        s = copy.deepcopy(spec)
        s["post_hooks"] = []
        out.append(s)
    if spec.get("custom_templates"):
        s = copy.deepcopy(spec)
        s["custom_templates"] = False
        out.append(s)
    # shrink documents
    for k in sorted(spec["docs"]):
        for d in driver.tree_candidates(spec["docs"][k], limit=120, protect=lambda p: p in (("info",), ("info", "title"), ("info", "version"), ("openapi",), ("paths",))):
            s = copy.deepcopy(spec)
            s["docs"][k] = d
            out.append(s)
    return out
