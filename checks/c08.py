"""C08 — a bad piece of the document never damages unrelated output.

World: clean document D (zero diagnostics, every module imports) -> fault list: 1-4 bad pieces
inserted at positions chosen from the ENUMERATED set of applicable positions -> D'.  Both are
generated; out(D') is compared module by module with the fault-free twin out(D) against the
dependency cone computed from D alone by a reference model.
"""
from __future__ import annotations

import copy
import hashlib
import json
import os
import re
from typing import Any

from sim import docgen, rng

PROP = "C08"
LEVEL = "fault_enumeration"
FN_SEED = "checks.c08:run_seed"
FN_SPEC = "checks.c08:run_spec"
RULE = (
    "seed -> clean document D (docgen; discarded and counted unless it generates with zero diagnostics) -> 1-4 bad pieces "
    "(array without items, dangling/remote $ref, ill-typed default, mixed/unsupported enum, allOf conflict/non-object, optional path "
    "parameter, duplicate parameters, path/parameter mismatch, unsupported body/response media types, invalid status key, header of a "
    "forbidden kind) at positions from the enumerated applicable set (new component; property/items/union member/additionalProperties/"
    "allOf member of an existing schema incl. ones others depend on; operation parameters/body/responses; path-item parameters; component "
    "parameter/response/requestBody used by reference); thorough enumerates every (piece, position) pair of each seed document. "
    "Non-trivial = faulted run whose fault was applied; distinct = distinct (piece, position kind, cone-size bucket, #faults)."
)
STATE_MEASURE = "distinct (piece kind, position kind, cone size bucket, number of simultaneous faults)"
REAL = ["typer/click CLI", "openapi_python_client parser incl. removal cascade and endpoint containment, templates, Project.build", "import machinery (every surviving module is imported)"]
STUB = ["jinja2 bytecode cache (in-memory)"]
ASSUMPTIONS = [
    "file provenance by the prefix-free top-level name tokens of docgen (schema 'Mxyz' -> models/mxyz*.py, operation 'op_xyz' -> api/*/op_xyz.py and models/op_xyz*.py)",
    "the fault-free twin and the faulted document are generated one after the other in one pristine forked interpreter (C12's warm-history cells guard the absence of leakage)",
]

SCHEMA_PIECES: dict[str, Any] = {
    "array-no-items": {"type": "array"},
    "dangling-ref": {"$ref": "#/components/schemas/Nope"},
    "remote-ref": {"$ref": "other.yaml#/components/schemas/X"},
    "bad-default-int": {"type": "integer", "default": "abc"},
    "bad-default-date": {"type": "string", "format": "date", "default": "not-a-date"},
    "bad-default-bool": {"type": "boolean", "default": "maybe"},
    "bad-default-enum": {"type": "string", "enum": ["a", "b"], "default": "c"},
    "mixed-enum": {"enum": ["a", 1]},
    "float-enum": {"enum": [1.5, 2.5]},
    "union-with-bad-member": {"oneOf": [{"type": "string"}, {"type": "array"}]},
    "nested-array-no-items": {"type": "array", "items": {"type": "array"}},
    "object-with-bad-prop": {"type": "object", "properties": {"inner": {"type": "array"}}},
}
REF_ONLY_POSITIONS = ("allof",)  # pieces usable as an allOf member
ALLOF_PIECES = {
    "dangling-ref": {"$ref": "#/components/schemas/Nope"},
    "remote-ref": {"$ref": "other.yaml#/components/schemas/X"},
    "allof-conflict": {"type": "object", "properties": {"__CONFLICT__": {"type": "boolean"}}},
}
OP_SCHEMA_POSITIONS = ("body-schema", "response-schema", "param-schema")  # x every SCHEMA_PIECE
OP_PIECES = ["param-array-no-items", "param-dangling-ref", "param-bad-default", "optional-path-param", "duplicate-params", "path-param-not-in-template",
             "placeholder-without-param", "body-only-xml", "body-extra-xml", "status-key-abc", "response-only-xml", "response-array-no-items",
             "response-dangling-ref", "header-date", "body-dangling-ref", "body-schema-array-no-items"]
METHODS = ("get", "put", "post", "delete", "options", "head", "patch", "trace")


def plan(tier: str, seed: int) -> dict:
    if tier == "quick":
        return {"n_runs": 10_000_000, "budget_s": 60, "min_runs": 30, "minimise_s": 40}
    return {"n_runs": 10_000_000, "budget_s": 900, "min_runs": 500, "minimise_s": 90}


# ---------------------------------------------------------------------- reference model of the document
def schema_refs(x: Any) -> set[str]:
    out: set[str] = set()
    if isinstance(x, dict):
        for k, v in x.items():
            if k == "$ref" and isinstance(v, str) and v.startswith("#/components/schemas/"):
                out.add(v.rsplit("/", 1)[1])
            else:
                out |= schema_refs(v)
    elif isinstance(x, list):
        for v in x:
            out |= schema_refs(v)
    return out


def _resolve_component(doc: dict, obj: Any, section: str) -> Any:
    if isinstance(obj, dict) and "$ref" in obj and isinstance(obj["$ref"], str) and obj["$ref"].startswith(f"#/components/{section}/"):
        return ((doc.get("components") or {}).get(section) or {}).get(obj["$ref"].rsplit("/", 1)[1])
    return obj


def op_items(doc: dict) -> dict[str, dict]:
    """operation id -> {path, method, op, uses: component parameter/body/response names}"""
    out: dict[str, dict] = {}
    for path, item in (doc.get("paths") or {}).items():
        if not isinstance(item, dict):
            continue
        for m in METHODS:
            op = item.get(m)
            if isinstance(op, dict) and op.get("operationId"):
                out[op["operationId"]] = {"path": path, "method": m, "op": op, "item": item}
    return out


def op_schema_refs(doc: dict, e: dict) -> set[str]:
    """Schemas an operation depends on, through inline content and through the components it uses."""
    op, item = e["op"], e["item"]
    refs: set[str] = set()
    for p in list(op.get("parameters") or []) + list(item.get("parameters") or []):
        refs |= schema_refs(_resolve_component(doc, p, "parameters"))
    refs |= schema_refs(_resolve_component(doc, op.get("requestBody"), "requestBodies"))
    for r_ in (op.get("responses") or {}).values():
        refs |= schema_refs(_resolve_component(doc, r_, "responses"))
    return refs


def component_users(doc: dict, section: str, name: str) -> list[str]:
    ref = f"#/components/{section}/{name}"
    users = []
    for opid, e in op_items(doc).items():
        blob = json.dumps([e["op"], e["item"].get("parameters")])
        if json.dumps(ref) in blob:
            users.append(opid)
    return users


def reverse_closure(doc: dict, schema_names: set[str]) -> set[str]:
    """Top-level items ('S:<name>' / 'E:<opid>') that reach any of the given schemas."""
    schemas = (doc.get("components") or {}).get("schemas") or {}
    deps = {n: schema_refs(s) for n, s in schemas.items()}
    hit = set(schema_names)
    changed = True
    while changed:
        changed = False
        for n, d in deps.items():
            if n not in hit and d & hit:
                hit.add(n)
                changed = True
    out = {f"S:{n}" for n in hit}
    for opid, e in op_items(doc).items():
        if op_schema_refs(doc, e) & hit:
            out.add(f"E:{opid}")
    return out


# ---------------------------------------------------------------------- positions and application
def enumerate_faults(doc: dict) -> list[dict]:
    """Every applicable (piece, position) pair of a document, deterministic order."""
    out: list[dict] = []
    schemas = (doc.get("components") or {}).get("schemas") or {}
    for piece in SCHEMA_PIECES:
        out.append({"piece": piece, "pos": "new-component"})
    for name, s_ in schemas.items():
        if _is_object(s_) and _name_variant_of_own_prop(doc, name) is not None:
            # a bad child whose own property pythonises to the name of an inherited one ("beta_value" next to the parent's "betaValue")
            out.append({"piece": "child-prop-clashes-with-inherited", "pos": "new-component-referencing", "schema": name})
    for piece in ("allof-conflict-component", "allof-non-object-component", "allof-enum-component"):
        for name, s in schemas.items():
            if _is_object(s) and piece != "allof-enum-component" or (piece == "allof-enum-component" and isinstance(s, dict) and "enum" in s):
                out.append({"piece": piece, "pos": "new-component-referencing", "schema": name})
    for name, s in schemas.items():
        if not _is_object(s):
            continue
        for piece in SCHEMA_PIECES:
            for pos in ("schema-prop", "schema-items", "schema-union-member", "schema-addl"):
                if pos == "schema-addl" and isinstance(s, dict) and "allOf" in s:
                    continue
                out.append({"piece": piece, "pos": pos, "schema": name})
        for piece in ALLOF_PIECES:
            out.append({"piece": piece, "pos": "schema-allof", "schema": name})
        # a property whose inline class would get the NAME of another component ("Order" + property "item" next to a
        # component "OrderItem"): the generator refuses it ("duplicate models" / "conflicting enums") - a bad piece of
        # THIS schema; the component whose name it wanted is an unrelated bystander
        for other in schemas:
            suf = other[len(name):] if other != name and other.startswith(name) else ""
            o_ = schemas[other]
            if suf and suf[0].isupper() and suf[1:].islower() and suf.isalpha() and "allOf" not in s and isinstance(o_, dict) and (_is_object(o_) or "enum" in o_):
                out.append({"piece": "inline-object-named-like-component", "pos": "schema-prop-collide", "schema": name, "other": other})
                out.append({"piece": "inline-enum-named-like-component", "pos": "schema-prop-collide", "schema": name, "other": other})
            # ... and a plainly bad property AFTER a sibling whose inline class gets the name of an inline class of that other
            # component ("Order.item_status" next to "OrderItem.status"): whatever the failed schema had registered on the
            # way must be gone when the bystander is processed
            if suf and suf[0].isupper() and suf[1:].islower() and suf.isalpha() and "allOf" not in s and isinstance(o_, dict) and isinstance(o_.get("properties"), dict):
                for pn, ps in o_["properties"].items():
                    if isinstance(ps, dict) and re.fullmatch(r"[A-Za-z][A-Za-z0-9]*", pn) and (("enum" in ps and None not in ps["enum"] and "$ref" not in ps) or (ps.get("type") == "object" and "properties" in ps)):
                        out.append({"piece": "array-no-items", "pos": "schema-prop-after-clashing-sibling", "schema": name, "other": other, "prop": pn})
                        out.append({"piece": "array-no-items", "pos": "schema-prop-after-clashing-sibling", "schema": name, "other": other, "prop": pn, "front": True})
                        break
    for opid, e in op_items(doc).items():
        for piece in OP_PIECES:
            if piece in ("optional-path-param",) and not _path_params(e):
                continue
            if piece == "body-extra-xml" and not isinstance(_resolve_component(doc, e["op"].get("requestBody"), "requestBodies"), dict):
                continue
            out.append({"piece": piece, "pos": "operation", "op": opid})
        for where in OP_SCHEMA_POSITIONS:
            for piece in SCHEMA_PIECES:
                out.append({"piece": f"{where}:{piece}", "pos": "operation", "op": opid})
        # a NEW bad operation that is this one's namesake: declared earlier, same tag, and an operationId ("Op_abc" next to
        # "op_abc") that gives the same module name - it is not generated, and that must not cost the valid one its module
        if opid[:1].islower():
            for piece in ("param-array-no-items", "param-dangling-ref", "body-only-xml", "header-date", "body-schema-array-no-items"):
                out.append({"piece": piece, "pos": "new-operation-namesake", "op": opid})
    for path, item in (doc.get("paths") or {}).items():
        if isinstance(item, dict):
            for piece in ("param-array-no-items", "param-dangling-ref", "duplicate-params", "path-param-not-in-template", "header-date"):
                out.append({"piece": piece, "pos": "path-item", "path": path})
            # a bad path-item-level parameter that operations of the path override (same name + in) with a valid one:
            # only the operations that do NOT override it depend on the bad piece
            if _shadow_target(doc, item) is not None:
                for piece in ("array-no-items", "dangling-ref", "bad-default-int", "mixed-enum"):
                    out.append({"piece": piece, "pos": "path-item-shadowed", "path": path})
    comps = doc.get("components") or {}
    for name in (comps.get("parameters") or {}):
        if component_users(doc, "parameters", name):
            for piece in ("array-no-items", "dangling-ref", "bad-default-int"):
                out.append({"piece": piece, "pos": "component-parameter", "name": name})
    for name in (comps.get("responses") or {}):
        if component_users(doc, "responses", name):
            for piece in ("response-only-xml", "response-array-no-items", "response-dangling-ref"):
                out.append({"piece": piece, "pos": "component-response", "name": name})
    for name in (comps.get("requestBodies") or {}):
        if component_users(doc, "requestBodies", name):
            for piece in ("body-only-xml", "body-schema-array-no-items", "body-dangling-ref"):
                out.append({"piece": piece, "pos": "component-body", "name": name})
    return out


def _is_object(s: Any) -> bool:
    return isinstance(s, dict) and (s.get("type") == "object" or "properties" in s or "allOf" in s) and "enum" not in s


def _path_params(e: dict) -> list[str]:
    return re.findall(r"{([a-zA-Z_-][a-zA-Z0-9_-]*)}", e["path"])


class NotApplicable(Exception):
    pass


def _name_variant_of_own_prop(doc: dict, schema_name: str) -> str | None:
    """Another spelling of one of the schema's own property names that gives the same Python identifier (fooBar <-> foo_bar),
    and is not itself a property of the schema."""
    props = _own_props(doc, schema_name)
    for pn in props:
        if re.fullmatch(r"[a-z]+[A-Z][a-z]+", pn):
            var = re.sub(r"([A-Z])", lambda m: "_" + m.group(1).lower(), pn)
        elif re.fullmatch(r"[a-z]+_[a-z]+", pn):
            a_, b_ = pn.split("_")
            var = a_ + b_.capitalize()
        else:
            continue
        if var not in props:
            return var
    return None


def _norm(k: str) -> str:
    return re.sub(r"[^a-z0-9]", "", str(k).lower())


def apply_fault(doc: dict, f: dict, n: int = 0) -> tuple[dict, set[str], list[str]]:
    """Returns (faulted document, cone as a set of top-level items, items a diagnostic must name)."""
    d = copy.deepcopy(doc)
    comps = d.setdefault("components", {})
    schemas = comps.setdefault("schemas", {})
    piece, pos = f["piece"], f["pos"]
    bad = f"zz_bad{n}"
    if pos == "new-component":
        name = f"Mzzq{n}"
        schemas[name] = copy.deepcopy(SCHEMA_PIECES[piece])
        return d, {f"S:{name}"}, [f"S:{name}"]
    if pos == "new-component-referencing":
        name = f"Mzzr{n}"
        tgt = f["schema"]
        if tgt not in schemas:
            raise NotApplicable(tgt)
        if piece == "child-prop-clashes-with-inherited":
            var = _name_variant_of_own_prop(doc, tgt)
            if var is None:
                raise NotApplicable("no property with a spelling variant")
            schemas[name] = {"allOf": [{"$ref": f"#/components/schemas/{tgt}"}, {"type": "object", "properties": {var: {"type": "string"}, bad: {"type": "array"}}}]}
        elif piece == "allof-conflict-component":
            props = _own_props(doc, tgt)
            if not props:
                raise NotApplicable("no property to conflict with")
            pn, ps = next(iter(props.items()))
            other = {"type": "boolean"} if ps.get("type") != "boolean" else {"type": "integer"}
            if "$ref" in ps or any(k in ps for k in ("oneOf", "anyOf", "allOf")) or ps.get("type") in (None, "array", "object") or isinstance(ps.get("type"), list) or "enum" in ps or "const" in ps:
                other = {"type": "boolean"}
                # merging with Any/unions may be legal: only use a plainly typed scalar property
                raise NotApplicable("first property is not a plain scalar")
            schemas[name] = {"allOf": [{"$ref": f"#/components/schemas/{tgt}"}, {"type": "object", "properties": {pn: other}}]}
        elif piece == "allof-non-object-component":
            non_obj = [k for k, v in schemas.items() if isinstance(v, dict) and ("enum" in v or v.get("type") in ("string", "integer", "array"))]
            if not non_obj:
                raise NotApplicable("no non-object component to take allOf of")
            schemas[name] = {"allOf": [{"$ref": f"#/components/schemas/{tgt}"}, {"$ref": f"#/components/schemas/{non_obj[0]}"}]}
        else:
            schemas[name] = {"allOf": [{"$ref": f"#/components/schemas/{tgt}"}, {"type": "object", "properties": {"q": {"type": "string"}}}]}
        return d, {f"S:{name}"}, [f"S:{name}"]
    if pos.startswith("schema-"):
        name = f["schema"]
        s = schemas.get(name)
        if not _is_object(s):
            raise NotApplicable(name)
        if pos == "schema-allof":
            member = copy.deepcopy(ALLOF_PIECES[piece])
            if piece == "allof-conflict":
                props = _own_props(doc, name)
                plain = [(k, v) for k, v in props.items() if isinstance(v, dict) and v.get("type") in ("string", "integer", "number") and "enum" not in v and "format" not in v and not v.get("nullable")]
                if not plain:
                    raise NotApplicable("no plain scalar property")
                member = {"type": "object", "properties": {plain[0][0]: {"type": "boolean"}}}
            if "allOf" in s:
                s["allOf"].append(member)
            else:
                body = {k: s.pop(k) for k in list(s) if k in ("type", "properties", "required", "additionalProperties")}
                s["allOf"] = [body, member]
        else:
            target = s
            if "allOf" in s and "properties" not in s:
                target = next((m for m in s["allOf"] if isinstance(m, dict) and "$ref" not in m), None)
                if target is None:
                    target = {"type": "object", "properties": {}}
                    s["allOf"].append(target)
            if pos == "schema-prop-collide":
                other = f.get("other") or ""
                if other not in schemas or not other.startswith(name) or not isinstance(schemas[other], dict) or not (_is_object(schemas[other]) or "enum" in schemas[other]):
                    raise NotApplicable(other)
                suf = other[len(name):]
                pn = suf[0].lower() + suf[1:]
                if any(_norm(k) == _norm(pn) for k in target.get("properties") or {}):
                    raise NotApplicable("property name taken")
                target.setdefault("properties", {})[pn] = ({"type": "object", "properties": {"inner": {"type": "string"}}} if piece.startswith("inline-object")
                                                           else {"type": "string", "enum": ["collide_a", "collide_b"]})
                # a clash of two names: which of the two the generator gives up (with a diagnostic) is its choice - both are
                # inside the cone, and whatever is omitted or changed must be named like any other affected item
                cone = reverse_closure(doc, {name, other})
                return d, cone, []
            if pos == "schema-prop-after-clashing-sibling":
                other = f.get("other") or ""
                o_ = schemas.get(other)
                pn = f.get("prop") or ""
                if not isinstance(o_, dict) or not other.startswith(name) or not isinstance((o_.get("properties") or {}).get(pn), dict):
                    raise NotApplicable(other)
                ps = o_["properties"][pn]
                suf = other[len(name):]
                sib = suf[0].lower() + suf[1:] + "_" + pn
                if any(_norm(k) == _norm(sib) for k in target.get("properties") or {}):
                    raise NotApplicable("property name taken")
                if "enum" in ps:
                    target.setdefault("properties", {})[sib] = {"type": "string", "enum": ["collide_a", "collide_b"]}
                elif ps.get("type") == "object":
                    target.setdefault("properties", {})[sib] = {"type": "object", "properties": {"collide_inner": {"type": "boolean"}}}
                else:
                    raise NotApplicable("no inline class")
                if f.get("front"):  # the clashing sibling is the FIRST property the generator meets
                    props = target["properties"]
                    first = {sib: props.pop(sib)}
                    first.update(props)
                    props.clear()
                    props.update(first)
                target["properties"][bad] = copy.deepcopy(SCHEMA_PIECES[piece])
                cone = reverse_closure(doc, {name})
                return d, cone, [f"S:{name}"]
            p = copy.deepcopy(SCHEMA_PIECES[piece])
            if pos == "schema-prop":
                target.setdefault("properties", {})[bad] = p
            elif pos == "schema-items":
                target.setdefault("properties", {})[bad] = {"type": "array", "items": p}
            elif pos == "schema-union-member":
                target.setdefault("properties", {})[bad] = {"oneOf": [{"type": "string"}, p]}
            elif pos == "schema-addl":
                target["additionalProperties"] = p
        cone = reverse_closure(doc, {name})
        return d, cone, [f"S:{name}"]
    if pos == "new-operation-namesake":
        ops = op_items(d)
        e2 = f["op"]
        e1 = e2[0].upper() + e2[1:]
        if e2 not in ops or e1 in ops or e1 == e2:
            raise NotApplicable(e2)
        sake = {"get": {"operationId": e1, "responses": {"204": {"description": "ok"}}}}
        if ops[e2]["op"].get("tags"):
            sake["get"]["tags"] = list(ops[e2]["op"]["tags"])
        d["paths"] = {f"/zz/namesake/{e2.lower()}{n}": sake, **d["paths"]}
        _apply_op_piece(d, op_items(d)[e1], piece, bad)
        return d, {f"E:{e1}"}, [f"E:{e1}"]
    if pos == "operation":
        ops = op_items(d)
        if f["op"] not in ops:
            raise NotApplicable(f["op"])
        e = ops[f["op"]]
        _apply_op_piece(d, e, piece, bad)
        return d, {f"E:{f['op']}"}, [f"E:{f['op']}"]
    if pos == "path-item":
        item = (d.get("paths") or {}).get(f["path"])
        if not isinstance(item, dict):
            raise NotApplicable(f["path"])
        params = item.setdefault("parameters", [])
        _add_param_piece(params, piece, bad, f["path"])
        ops = [f"E:{opid}" for opid, e in op_items(doc).items() if e["path"] == f["path"]]
        if not ops:
            raise NotApplicable("no operations on path")
        return d, set(ops), ops
    if pos == "path-item-shadowed":
        item = (d.get("paths") or {}).get(f["path"])
        tgt = _shadow_target(d, item) if isinstance(item, dict) else None
        if tgt is None or piece not in SCHEMA_PIECES:
            raise NotApplicable(f["path"])
        name, loc = tgt
        item.setdefault("parameters", []).append({"name": name, "in": loc, "schema": copy.deepcopy(SCHEMA_PIECES[piece])})
        ops = [f"E:{opid}" for opid, e in op_items(doc).items() if e["path"] == f["path"] and (name, loc) not in _op_level_params(doc, e["op"])]
        return d, set(ops), ops
    if pos == "component-parameter":
        p = (comps.get("parameters") or {}).get(f["name"])
        if not isinstance(p, dict):
            raise NotApplicable(f["name"])
        p["schema"] = copy.deepcopy(SCHEMA_PIECES[piece])
        users = [f"E:{u}" for u in component_users(doc, "parameters", f["name"])]
        return d, set(users), users
    if pos == "component-response":
        r_ = (comps.get("responses") or {}).get(f["name"])
        if not isinstance(r_, dict):
            raise NotApplicable(f["name"])
        r_.clear()
        r_.update(_response_piece(piece))
        users = [f"E:{u}" for u in component_users(doc, "responses", f["name"])]
        return d, set(users), users
    if pos == "component-body":
        b = (comps.get("requestBodies") or {}).get(f["name"])
        if not isinstance(b, dict):
            raise NotApplicable(f["name"])
        b.clear()
        b.update(_body_piece(piece))
        users = [f"E:{u}" for u in component_users(doc, "requestBodies", f["name"])]
        return d, set(users), users
    raise ValueError(pos)


def _own_props(doc: dict, name: str) -> dict:
    s = ((doc.get("components") or {}).get("schemas") or {}).get(name) or {}
    if "properties" in s:
        return s["properties"]
    for m in s.get("allOf", []):
        if isinstance(m, dict) and "properties" in m:
            return m["properties"]
    return {}


def _response_piece(piece: str) -> dict:
    return {
        "response-only-xml": {"description": "x", "content": {"application/xml": {"schema": {"type": "string"}}}},
        "response-array-no-items": {"description": "x", "content": {"application/json": {"schema": {"type": "array"}}}},
        "response-dangling-ref": {"description": "x", "content": {"application/json": {"schema": {"$ref": "#/components/schemas/Nope"}}}},
    }[piece]


def _body_piece(piece: str) -> dict:
    return {
        "body-only-xml": {"content": {"application/xml": {"schema": {"type": "string"}}}},
        "body-schema-array-no-items": {"content": {"application/json": {"schema": {"type": "array"}}}},
        "body-dangling-ref": {"content": {"application/json": {"schema": {"$ref": "#/components/schemas/Nope"}}}},
    }[piece]


def _op_level_params(doc: dict, op: dict) -> set[tuple[str, str]]:
    out: set[tuple[str, str]] = set()
    for p in op.get("parameters") or []:
        p = _resolve_component(doc, p, "parameters")
        if isinstance(p, dict) and isinstance(p.get("name"), str) and isinstance(p.get("in"), str):
            out.add((p["name"], p["in"]))
    return out


def _shadow_target(doc: dict, item: dict) -> tuple[str, str] | None:
    """A (name, in) that an operation of this path item declares at operation level, that the path item itself does not
    declare yet and that is not a path parameter (first in document order)."""
    have = _op_level_params(doc, item)
    for m in METHODS:
        op = item.get(m)
        if isinstance(op, dict) and op.get("operationId"):
            for p in op.get("parameters") or []:
                p = _resolve_component(doc, p, "parameters")
                if isinstance(p, dict) and p.get("in") in ("query", "header", "cookie") and isinstance(p.get("name"), str) and (p["name"], p["in"]) not in have:
                    return p["name"], p["in"]
    return None


def _add_param_piece(params: list, piece: str, bad: str, path: str) -> None:
    if piece == "param-array-no-items":
        params.append({"name": bad, "in": "query", "schema": {"type": "array"}})
    elif piece == "param-dangling-ref":
        params.append({"name": bad, "in": "query", "schema": {"$ref": "#/components/schemas/Nope"}})
    elif piece == "param-bad-default":
        params.append({"name": bad, "in": "query", "schema": {"type": "integer", "default": "abc"}})
    elif piece == "duplicate-params":
        params.append({"name": bad, "in": "query", "schema": {"type": "string"}})
        params.append({"name": bad, "in": "query", "schema": {"type": "integer"}})
    elif piece == "path-param-not-in-template":
        params.append({"name": bad, "in": "path", "required": True, "schema": {"type": "string"}})
    elif piece == "header-date":
        params.append({"name": "X-Bad-Date", "in": "header", "schema": {"type": "string", "format": "date"}})
    else:
        raise NotApplicable(piece)


def _apply_op_piece(d: dict, e: dict, piece: str, bad: str) -> None:
    op = e["op"]
    params = op.setdefault("parameters", [])
    if ":" in piece:
        where, sp = piece.split(":", 1)
        sch = copy.deepcopy(SCHEMA_PIECES[sp])
        if where == "body-schema":
            op["requestBody"] = {"content": {"application/json": {"schema": sch}}}
        elif where == "response-schema":
            op.setdefault("responses", {})["418"] = {"description": "x", "content": {"application/json": {"schema": sch}}}
        else:
            params.append({"name": bad, "in": "query", "schema": sch})
        return
    if piece in ("param-array-no-items", "param-dangling-ref", "param-bad-default", "duplicate-params", "path-param-not-in-template", "header-date"):
        _add_param_piece(params, piece, bad, e["path"])
    elif piece == "optional-path-param":
        name = _path_params(e)[0]
        # operation-level override of the path parameter, now optional
        params[:] = [p for p in params if not (isinstance(p, dict) and p.get("name") == name and p.get("in") == "path")]
        params.append({"name": name, "in": "path", "required": False, "schema": {"type": "string"}})
    elif piece == "placeholder-without-param":
        # move the operation to a path with one more placeholder that nobody declares
        paths = d["paths"]
        old = e["path"]
        new = old + "/{" + bad + "}"
        item = paths[old]
        m = e["method"]
        paths.setdefault(new, {})
        if item.get("parameters"):
            paths[new]["parameters"] = copy.deepcopy(item["parameters"])
        paths[new][m] = item.pop(m)
        if not any(k in item for k in METHODS):
            del paths[old]
    elif piece == "body-only-xml":
        op["requestBody"] = _body_piece(piece)
    elif piece == "body-extra-xml":
        b = _resolve_component(d, op.get("requestBody"), "requestBodies")
        b = copy.deepcopy(b)
        b.setdefault("content", {})["application/xml"] = {"schema": {"type": "string"}}
        op["requestBody"] = b
    elif piece in ("body-dangling-ref", "body-schema-array-no-items"):
        op["requestBody"] = _body_piece(piece)
    elif piece == "status-key-abc":
        op.setdefault("responses", {})["abc"] = {"description": "bad key"}
    elif piece in ("response-only-xml", "response-array-no-items", "response-dangling-ref"):
        op.setdefault("responses", {})["418"] = _response_piece(piece)
    else:
        raise NotApplicable(piece)


# ---------------------------------------------------------------------- provenance
def provenance(rel: str, schema_names: list[str], op_ids: list[str]) -> str | None:
    """Top-level item a generated file belongs to ('S:..' / 'E:..'), 'INDEX' for package index files,
    None for document-independent files."""
    parts = rel.split("/")
    base = parts[-1]
    if "models" in parts:
        if base == "__init__.py":
            return "INDEX"
        stem = base[:-3] if base.endswith(".py") else base
        best = None
        for opid in op_ids:
            pre = opid.lower()
            if stem == pre or stem.startswith(pre + "_"):
                if best is None or len(pre) > len(best[1]):
                    best = (f"E:{opid}", pre)
        for sn in schema_names:
            pre = _snake(sn)
            if stem == pre or stem.startswith(pre + "_"):
                if best is None or len(pre) > len(best[1]):
                    best = (f"S:{sn}", pre)
        return best[0] if best else f"UNATTRIBUTED:{stem}"
    if "api" in parts:
        if base == "__init__.py":
            return "INDEX"
        stem = base[:-3]
        for opid in op_ids:
            if stem == opid.lower():
                return f"E:{opid}"
        return f"UNATTRIBUTED:{stem}"
    return None


def names_in_index(text: str) -> set[str]:
    return set(re.findall(r"^\s+\"(\w+)\",\s*$", text, flags=re.M)) | set(re.findall(r"^from \.(\w+) import", text, flags=re.M))


# ---------------------------------------------------------------------- execution
def make_doc(seed: int) -> dict:
    r = rng.stream(seed, "doc")
    p_on = r.choice([0.5, 0.7, 0.9])
    toggles = {t: r.random() < p_on for t in docgen.TOGGLES}
    toggles["same_name_two_locations"] = False  # inline enum names may collide across locations: diagnostics on a clean document
    toggles["no_operation_id"] = False  # file provenance needs the prefix-free operationId tokens
    toggles["long_paths"] = False
    toggles["titles"] = False  # a titled inline class is named after its title, not after the item it belongs to (file provenance)
    g = docgen.DocGen(r, toggles=toggles, size=r.choice(["small", "small", "medium"]))
    g.ref_weight = 5.0
    doc = g.document()
    # component names that extend another component's name ("Order" / "OrderItem", docgen toggle prefix_names): half of the
    # longer ones get an inline enum property, so that an inline class of the shorter one CAN derive the same class name
    schemas = (doc.get("components") or {}).get("schemas") or {}
    for other, o_ in schemas.items():
        if isinstance(o_, dict) and isinstance(o_.get("properties"), dict) and "allOf" not in o_ and any(other != x and other.startswith(x) for x in schemas) and r.random() < 0.5:
            if not any(_norm(k) == "kappa" for k in o_["properties"]):
                o_["properties"]["kappa"] = {"type": "string", "enum": ["red", "Green", "teal"]}
    return doc


def run_seed(args: dict, sandbox: str) -> dict:
    seed = args["seed"]
    doc = make_doc(args.get("doc_seed", seed))
    r = rng.stream(seed, "faults")
    space = enumerate_faults(doc)
    if args.get("enum_index") is not None:
        fl = [space[args["enum_index"] % len(space)]]
    else:
        k = r.choice([1, 1, 1, 2, 2, 3, 4])
        fl = [r.choice(space) for _ in range(k)]
        collide = [f_ for f_ in space if f_["pos"].endswith("-collide") or f_["pos"].endswith("-clashing-sibling") or f_["pos"] == "new-operation-namesake"]
        if collide and r.random() < 0.2:
            fl[0] = r.choice(collide)  # (a handful among hundreds of positions: drawn on purpose now and then)
        if r.random() < 0.05:
            fl = []  # fault-free configuration: D vs D
    a = rng.stream(seed, "args")
    spec = {"hashseed": seed % 4, "doc": doc, "faults": fl, "meta": a.choice(["none", "none", "poetry"]),
            "config": docgen.random_config(a, doc),
            # two idempotent post-hooks (real subprocesses run in the project directory) in a quarter of the runs
            "post_hooks": a.choice([[], [], [], ["touch hook1.txt", "touch hook2.txt"]])}
    # a fifth of the runs also regenerate D' with --overwrite OVER the tree of D (the document "went bad" between two
    # generations): what was removed with the bad piece must be gone from the existing tree as well
    spec["regen_over_clean"] = a.random() < 0.2
    if spec["regen_over_clean"]:
        spec["meta"] = a.choice(["none", "poetry", "pdm", "setup"])
        # ... in half of them the earlier generation of D had DIED on the way (crash / kill before a random file-system call)
        if a.random() < 0.5:
            spec["regen_crash"] = {"kfrac": a.random(), "hard": a.random() < 0.5, "torn": a.choice([None, None, 0.5])}
    if a.random() < 0.06:
        spec["post_hooks"] = a.choice([["false"], ["touch hook1.txt", "false"], ["false", "touch hook2.txt"]])  # a hook that fails: an ERROR-level entry next to the warnings
    res = run_spec({"spec": spec}, sandbox)
    if not res.get("violations"):
        res.pop("spec", None)
    return res


def _generate(doc: dict, spec: dict, sandbox: str, tag: str, over: str | None = None, crash: dict | None = None, clean_doc: dict | None = None) -> dict:
    from sim import fsseam, genrun

    base = os.path.join(sandbox, tag)
    os.makedirs(base)
    dp = os.path.join(base, "doc.json")
    with open(dp, "w") as f:
        json.dump(doc, f)
    cfg = genrun.write_config(base, {"post_hooks": list(spec.get("post_hooks") or []), **(spec.get("config") or {})})
    out = os.path.join(base, "gen", f"pkg_{tag}")
    os.makedirs(os.path.dirname(out))
    extra = []
    if over is not None and crash is not None and clean_doc is not None:
        # the existing tree is what a generation of D that died half-way left behind
        dp0 = os.path.join(base, "doc_clean.json")
        with open(dp0, "w") as f:
            json.dump(clean_doc, f)
        probe = fsseam.FsSeam(os.path.dirname(out))
        scratch = out + "_count"
        genrun.run_cli(["generate", "--path", dp0, "--config", cfg, "--meta", spec.get("meta", "none"), "--output-path", scratch], around=lambda: probe)
        import shutil

        shutil.rmtree(scratch, ignore_errors=True)
        k = int(float(crash.get("kfrac") or 0.0) * probe.k)
        seam = fsseam.FsSeam(os.path.dirname(out), crash_at=k, torn=crash.get("torn"), hard=bool(crash.get("hard")))
        genrun.run_cli(["generate", "--path", dp0, "--config", cfg, "--meta", spec.get("meta", "none"), "--output-path", out], around=lambda: seam)
        os.makedirs(out, exist_ok=True)
        extra = ["--overwrite"]
    elif over is not None:
        import shutil

        shutil.copytree(over, out, symlinks=True)  # regenerate over an existing tree
        extra = ["--overwrite"]
    res = genrun.run_cli(["generate", "--path", dp, "--config", cfg, "--meta", spec.get("meta", "none"), "--output-path", out, *extra])
    tree = genrun.read_tree(out) if os.path.isdir(out) else {}
    return {"res": res, "tree": tree, "out": out}


def run_spec(args: dict, sandbox: str) -> dict:
    from sim import genrun

    spec = args["spec"]
    doc = spec["doc"]
    log = [f"spec {hashlib.sha256(json.dumps(spec, sort_keys=True).encode()).hexdigest()[:16]} hashseed={os.environ.get('PYTHONHASHSEED')}"]
    clean = _generate(doc, spec, sandbox, "clean")
    cres = clean["res"]
    c_hook = [d for d in (cres["diagnostics"] or []) if d["level"] == "ERROR" and (d["header"] or "").endswith(" failed")]
    if cres["exception"] or cres["diagnostics"] is None or len(cres["diagnostics"]) > len(c_hook) or (cres["exit_code"] != 0) != bool(c_hook):
        return {"violations": [], "skipped": "twin-has-diagnostics", "faults": {}, "probes": {"twin-discarded": 1}, "states": [], "nontrivial_keys": [], "fingerprint": rng.fingerprint(log), "sim_time": 0.0}
    d2 = doc
    cone: set[str] = set()
    must_name: list[tuple[dict, list[str]]] = []
    applied = []
    overridden = set(((spec.get("config") or {}).get("class_overrides") or {}))
    for n, f in enumerate(spec["faults"]):
        try:
            if (f["pos"].endswith("-collide") or f["pos"].endswith("-clashing-sibling")) and overridden & {f.get("schema"), f.get("other")}:
                raise NotApplicable("a class_overrides entry renames one of the two: the derived names no longer clash")
            d2, c, names = apply_fault(d2, f, n)
        except NotApplicable:
            continue
        except (KeyError, TypeError, AttributeError, IndexError, StopIteration):
            continue
        cone |= c
        must_name.append((f, names))
        applied.append(f)
    faulted = _generate(d2, spec, sandbox, "faulted")
    fres = faulted["res"]
    violations: list[dict] = []
    label = "+".join(f"{f['piece']}@{f['pos']}" for f in applied) or "fault-free"
    first = applied[0] if applied else {"piece": "none", "pos": "none"}
    locus0 = first["pos"]  # the mechanism-level locus; the piece is in the detail and in the replay file

    def viol(kind: str, locus: str, detail: str) -> None:
        violations.append({"kind": kind, "locus": locus, "detail": f"[{label}] {detail}"})

    diags = fres["diagnostics"]
    if fres["exception"]:
        viol("crash-on-bad-piece", f"{fres['exception']}@{genrun.tb_locus(fres['tb'])}", f"unhandled {fres['exception']}: {fres['exception_msg']}\n{fres['tb'][-800:]}")
    elif diags is None:
        viol("no-diagnostics-object", "", "generate did not return")
    else:
        hook_errors = [d for d in diags if d["level"] == "ERROR" and (d["header"] or "").endswith(" failed")]
        errors = [d for d in diags if d["level"] == "ERROR" and d not in hook_errors]
        printed = (fres.get("stdout") or "") + (fres.get("stderr") or "")
        for d in diags:
            h = (d["header"] or "").strip()
            if h and "".join(h.split()) not in "".join(printed.split()):
                viol("diagnostic-not-printed", d["level"], f"diagnostic {h!r} was returned by generate() but is missing from what the command printed")
                break
        if errors or (fres["exit_code"] != 0) != bool(hook_errors):
            viol("bad-piece-rejected-whole-document", locus0, f"exit={fres['exit_code']} error diagnostics={[d['header'] for d in errors][:3]}")
        # (a bad path-item parameter that EVERY operation overrides is never used: nothing depends on it, nothing to report)
        if applied and not diags and any(names or f_["pos"] != "path-item-shadowed" for f_, names in must_name):
            viol("bad-piece-without-diagnostic", locus0, "faulted document generated without any diagnostic")
    schema_names = sorted(((doc.get("components") or {}).get("schemas") or {}))
    schema_names_f = sorted(((d2.get("components") or {}).get("schemas") or {}))
    # (document order reversed: of two operations whose ids give the same module name the LATER one owns the file)
    op_ids = list(reversed(list(op_items(doc)))) + [o for o in sorted(op_items(d2)) if o not in op_items(doc)]
    t0, t1 = clean["tree"], faulted["tree"]
    strip = lambda k: k.split("/", 0)[-1]  # noqa: E731
    del strip
    changed_items: set[str] = set()
    if not fres["exception"] and diags is not None:
        for rel in sorted(set(t0) | set(t1)):
            a, b = t0.get(rel), t1.get(rel)
            if a == b:
                continue
            prov = provenance(rel, sorted(set(schema_names) | set(schema_names_f)), op_ids)
            if prov == "INDEX":
                if a is not None and b is not None:
                    lost = names_in_index(a.decode()) - names_in_index(b.decode())
                    bad_lost = []
                    for nm in lost:
                        p2 = provenance(("models/" if "models" in rel.split("/") else "api/x/") + _snake(nm) + ".py", sorted(set(schema_names) | set(schema_names_f)), op_ids)
                        if p2 not in cone:
                            bad_lost.append(nm)
                    if bad_lost:
                        viol("index-lost-unrelated-name", locus0, f"{rel} no longer lists {sorted(bad_lost)[:5]} which are outside the cone {sorted(cone)[:6]}")
                elif a is not None and b is None:
                    # a tag package disappears only if every operation in it is in a cone
                    tagdir = os.path.dirname(rel)
                    survivors = [k for k in t0 if os.path.dirname(k) == tagdir and not k.endswith("__init__.py") and provenance(k, schema_names, op_ids) not in cone]
                    if survivors:
                        viol("index-missing", locus0, f"{rel} missing although {survivors[:3]} are outside the cone")
                continue
            if prov is None:
                viol("generic-file-changed", rel.split("/")[-1], f"document-independent file {rel} differs between D and D'")
                continue
            if prov.startswith("UNATTRIBUTED"):
                viol("unattributed-file", prov, f"{rel} cannot be attributed to a top-level item (harness provenance)")
                continue
            if a is not None and b is not None and _only_multipart_differs(a, b) and any("api" in k.split("/") and k not in t1 for k in t0):
                # (also when the model itself lies inside a cone - as a dependant of a name-clash bystander, say - without being affected)
                # the model is the multipart body of an operation inside the cone: its to_multipart() method follows the operation
                users = [x for x in cone if x.startswith("E:")] or sorted(k for k in t0 if "api" in k.split("/") and k not in t1)
                viol("model-lost-to_multipart", "models", f"{rel} ({prov}) lost its to_multipart() method because the only operation(s) using it as a multipart body ({users[:3]}) were omitted")
            elif prov not in cone:
                what = "missing" if b is None else ("new" if a is None else "changed")
                viol("damage-outside-cone", f"{locus0}:{what}:{_fileclass(rel)}", f"{rel} ({prov}) is {what} in out(D') but lies outside the cone {sorted(cone)[:8]}")
            else:
                changed_items.add(prov)
        # each affected top-level item is named by a diagnostic
        text = "\n".join(f"{d['header'] or ''}\n{d['detail'] or ''}\n{d.get('data') or ''}" for d in diags)
        ops_all = {**op_items(doc), **op_items(d2)}
        # a component that IS a bare reference is reported by printing the offending reference itself
        self_evident = {names[0] for f_, names in must_name if f_["pos"] == "new-component" and f_["piece"] in ("dangling-ref", "remote-ref")
                        and ("Nope" if f_["piece"] == "dangling-ref" else "other.yaml") in text}
        for item in sorted(changed_items | {n for _f, names in must_name for n in names}):
            if item in self_evident:
                continue
            if not _named(item, text, ops_all):
                viol("affected-item-not-named", f"{locus0}:{item[0]}", f"{item} was omitted/changed (or holds the bad piece) but no diagnostic names it; diagnostics: {[d['header'] for d in diags][:4]}")
        # nothing that remains refers to anything removed: every relative import statement of every surviving
        # module - also the lazy ones inside TYPE_CHECKING blocks and function bodies - must resolve to a file
        dangling = dangling_relative_imports(t1)
        if dangling:
            rel0, tgt0 = dangling[0]
            viol("survivor-refers-to-removed", f"{_fileclass(rel0)}->{_fileclass(tgt0)}", f"{rel0} imports {tgt0!r} which does not exist in out(D') (all: {dangling[:4]})")
        if spec.get("regen_over_clean") and t1:
            regen = _generate(d2, spec, sandbox, "regen", over=clean["out"], crash=spec.get("regen_crash"), clean_doc=doc)
            t2 = regen["tree"]
            dg = lambda ds: sorted((d["level"], d["header"] or "", d["detail"] or "") for d in (ds or []))  # noqa: E731
            if not regen["res"]["exception"] and dg(regen["res"]["diagnostics"]) != dg(diags):
                lost = [x for x in dg(diags) if x not in dg(regen["res"]["diagnostics"])]
                viol("diagnostics-differ-on-regeneration", "lost" if lost else "new", f"the same document D' generated a second time in this process reports different diagnostics: lost={[x[1] for x in lost][:4]} (first: {len(diags)}, second: {len(regen['res']['diagnostics'] or [])})")
            if regen["res"]["exception"]:
                viol("crash-on-bad-piece", f"{regen['res']['exception']}@{genrun.tb_locus(regen['res']['tb'])}", f"regeneration over the clean tree: unhandled {regen['res']['exception']}: {regen['res']['exception_msg']}")
            elif t2 != t1:
                extra_f = sorted(set(t2) - set(t1))
                missing_f = sorted(set(t1) - set(t2))
                differ_f = sorted(k for k in t1 if k in t2 and t1[k] != t2[k])
                what = "stale" if extra_f else ("missing" if missing_f else "differs")
                rel0 = (extra_f or missing_f or differ_f)[0]
                viol("regenerated-tree-differs", f"{what}:{_fileclass(rel0)}", f"D' generated with --overwrite over the tree of D differs from D' generated afresh: stale={extra_f[:4]} missing={missing_f[:4]} differ={differ_f[:4]}")
        if faulted["tree"]:
            fails = genrun.import_all_modules(os.path.dirname(faulted["out"]), os.path.basename(faulted["out"]))
            if fails:
                m0, e0 = fails[0]
                importer = "api" if ".api." in m0 else ("models" if ".models." in m0 else "other")
                missing = "models" if ".models." in e0 else ("api" if ".api." in e0 else e0.split(":")[0])
                viol("survivor-does-not-import", f"{importer}->{missing}", f"modules of out(D') fail to import: {fails[:3]}")
    size_bucket = "0" if not cone else ("1" if len(cone) == 1 else ("2-3" if len(cone) <= 3 else "4+"))
    states = [f"{f['piece']}|{f['pos']}|cone={size_bucket}|n={len(applied)}" for f in applied] or ["fault-free"]
    fc: dict[str, int] = {}
    for f in applied:
        fc[f["piece"]] = fc.get(f["piece"], 0) + 1
    probes = {"cone>=4": 1 if len(cone) >= 4 else 0, "multi-fault": 1 if len(applied) > 1 else 0,
              "module-removed-inside-cone": 1 if any(t1.get(k) is None for k in t0) else 0,
              "module-changed-inside-cone": 1 if any(k in t1 and t0[k] != t1[k] and provenance(k, schema_names, op_ids) not in (None, "INDEX") for k in t0) else 0,
              "fault-free-config": 0 if applied else 1}
    log.append(f"clean files={len(t0)} faulted files={len(t1)} diags={None if diags is None else len(diags)} cone={sorted(cone)}")
    log.extend(f"diag {d['level']} {(d['header'] or '')[:100]!r}" for d in (diags or []))
    seen = set()
    vv = []
    for v in violations:
        k = (v["kind"], v["locus"])
        if k not in seen:
            seen.add(k)
            vv.append(v)
    return {
        "violations": vv[:5], "spec": spec, "faults": fc, "probes": probes, "states": states, "nontrivial_keys": states if applied else [],
        "fingerprint": rng.fingerprint(log), "sim_time": 0.0,
        "sample": {"faults": applied[:3], "cone": sorted(cone)[:8], "n_diag": None if diags is None else len(diags), "files_clean": len(t0), "files_faulted": len(t1),
                   "changed_items": sorted(changed_items)[:6]},
    }


def dangling_relative_imports(tree: dict[str, bytes]) -> list[tuple[str, str]]:
    out = []
    files = set(tree)
    for rel, data in sorted(tree.items()):
        if not rel.endswith(".py"):
            continue
        pkg_parts = rel.split("/")[:-1]
        for m in re.finditer(r"^[ \t]*from (\.+)([\w.]*) import ", data.decode("utf-8", "replace"), flags=re.M):
            dots, mod = len(m.group(1)), m.group(2)
            base = pkg_parts[: len(pkg_parts) - (dots - 1)] if dots > 1 else list(pkg_parts)
            if dots - 1 > len(pkg_parts):
                continue
            target = base + [x for x in mod.split(".") if x]
            cand1 = "/".join(target) + ".py"
            cand2 = "/".join(target + ["__init__.py"])
            if not target:
                continue
            if cand1 not in files and cand2 not in files:
                out.append((rel, "/".join(target)))
    return out


def _only_multipart_differs(a: bytes, b: bytes) -> bool:
    def strip(x: bytes) -> str:
        t = x.decode()
        t = re.sub(r"\n    def to_multipart\(self\).*?\n        return field_dict\n", "\n", t, flags=re.S)
        t = t.replace("import json\n", "")
        return re.sub(r"\n\s*\n+", "\n", t)

    return strip(a) == strip(b)


def _snake(name: str) -> str:
    return re.sub(r"(?<!^)(?=[A-Z])", "_", name).lower()


def _fileclass(rel: str) -> str:
    parts = rel.split("/")
    if "models" in parts:
        return "models"
    if "api" in parts:
        return "api"
    return parts[-1]


def _named(item: str, text: str, ops: dict) -> bool:
    kind, name = item.split(":", 1)
    if kind == "S":
        return f"/components/schemas/{name}" in text or re.search(rf"\b{re.escape(name)}\b", text) is not None
    e = ops.get(name)
    if e is None:
        return name in text
    return f"{e['method'].upper()} {e['path']}" in text or name in text


# ---------------------------------------------------------------------- thorough: enumeration of (piece, position) pairs
def seed_jobs(tier: str, seed: int, plan_: dict):
    i = 0
    d = 0
    while True:
        for _ in range(1500 if tier == "thorough" else 10**9):
            s = rng.derive(seed, PROP, i)
            yield {"fn": FN_SEED, "args": {"seed": s, "tier": tier, "index": i}, "h": s % 4, "timeout": 180}
            i += 1
        doc_seed = rng.derive(seed, PROP, "enumdoc", d)
        d += 1
        n = len(enumerate_faults(make_doc(doc_seed)))
        for j in range(n):
            s = rng.derive(doc_seed, "enum", j)
            yield {"fn": FN_SEED, "args": {"seed": s, "tier": tier, "enum_index": j, "doc_seed": doc_seed}, "h": s % 4, "timeout": 180}


# ---------------------------------------------------------------------- shrinking
def spec_size(spec: dict) -> dict:
    return {"doc_nodes": docgen.count_nodes(spec["doc"]), "faults": len(spec["faults"])}


def shrink_candidates(spec: dict) -> list[dict]:
    from sim import driver

    out = []
    fl = spec["faults"]
    if len(fl) > 1:
        for i in range(len(fl)):
            s = copy.deepcopy(spec)
            del s["faults"][i]
            out.append(s)
    if spec.get("meta") != "none":
        s = copy.deepcopy(spec)
        s["meta"] = "none"
        out.append(s)
    if any((spec.get("config") or {}).values()):
        s = copy.deepcopy(spec)
        s["config"] = {}
        out.append(s)
    if spec.get("post_hooks"):
        s = copy.deepcopy(spec)
        s["post_hooks"] = []
        out.append(s)
    if spec.get("regen_crash"):
        s = copy.deepcopy(spec)
        s["regen_crash"] = None
        out.append(s)
    if spec.get("regen_over_clean"):
        s = copy.deepcopy(spec)
        s["regen_over_clean"] = False
        out.append(s)
    protect = lambda p: p in (("info",), ("info", "title"), ("info", "version"), ("openapi",), ("paths",))  # noqa: E731
    for d in driver.tree_candidates(spec["doc"], limit=250, protect=protect):
        s = copy.deepcopy(spec)
        s["doc"] = d
        out.append(s)
    return out
