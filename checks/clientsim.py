"""Shared world of C03 and C04: REAL generator -> REAL generated package (imported) -> REAL httpx
Client/AsyncClient built by the generated client object -> SimTransport + SimLoop -> simulated
API server.  A world is a document plus sessions of call groups (blocking calls one at a time,
asyncio calls as concurrently scheduled groups on a shared client); every call carries its own
explicit arguments and the server behaviour planned for it, so a spec replays without any RNG.
"""
from __future__ import annotations

import asyncio
import copy
import hashlib
import inspect
import json
import os
import re
import typing
from typing import Any

from sim import docgen, rng
from sim import instances as inst
from sim import refmodel as rm

ABSENT = "__absent__"
PKG = "simpkg"
HTTPX_OWN_HEADERS = {"host", "accept", "accept-encoding", "connection", "user-agent", "content-length", "content-type", "transfer-encoding", "cookie"}
CANARY_RE = re.compile(r"c\d+z[a-z]{4}")
NON_ENUM_STATUSES = [299, 499, 520, 599]

PROBE_CELLS = [
    ("header", {"type": "string", "format": "uuid"}),
    ("cookie", {"type": "integer"}),
    ("cookie", {"type": "number"}),
    ("cookie", {"type": "boolean"}),
    ("cookie", {"type": "string", "format": "uuid"}),
    ("cookie", {"type": "string", "format": "date"}),
    ("cookie", {"type": "string", "format": "date-time"}),
    ("cookie", {"type": "integer", "enum": [1, 2, 3]}),
    ("header", {"type": "integer", "enum": [1, 2, 3]}),
    ("header", {"type": "string", "enum": ["red", "Green"]}),
    ("path", {"type": "string", "format": "date-time"}),
    ("query", {"type": "string", "format": "date-time"}),
    ("header", {"oneOf": [{"type": "integer"}, {"type": "string"}]}),  # a union-typed header (the parser accepts it)
    ("cookie", {"oneOf": [{"type": "integer"}, {"type": "boolean"}]}),
]


# ---------------------------------------------------------------------- spec construction (seeded)
def make_doc(seed: int, prop: str) -> tuple[dict, dict]:
    r = rng.stream(seed, "doc")
    g = docgen.DocGen(r, size=r.choice(["tiny", "small", "small", "medium"]), profile="operations")
    cfg: dict[str, Any] = {"literal_enums": r.random() < 0.2, "docstrings_on_attributes": r.random() < 0.1}
    if r.random() < 0.2:
        # custom media types that behave as a known one but must still be SENT as themselves
        cfg["content_type_overrides"] = {"application/x-sim-archive": "application/octet-stream", "application/x-sim-doc": "application/json",
                                         "application/vnd.SIM.Report": "application/json", "text/X-Sim-Note": "text/plain"}
        g.ct_overrides = cfg["content_type_overrides"]
    doc = g.document()
    docgen.unique_titles(doc)
    ov = cfg.get("content_type_overrides")
    cfg = docgen.random_config(rng.stream(seed, "config"), doc)
    cfg.setdefault("literal_enums", False)
    if ov:
        cfg["content_type_overrides"] = ov
    # dedicated single-parameter probe operations (DESIGN A.2): cells the parser accepts but whose
    # calls may raise while the request is being built would blind the oracle in mainstream operations
    if r.random() < 0.35:
        for _ in range(r.choice([1, 1, 2])):
            loc, sch = r.choice(PROBE_CELLS)
            tok = g.token()
            name = {"header": "X-Probe", "cookie": "probe_c", "path": "pv", "query": "pq"}[loc]
            path = f"/probe{tok}" + ("/{pv}" if loc == "path" else "")
            doc["paths"][path] = {"get": {"operationId": "op_" + tok, "x-probe": True,
                                          "parameters": [{"name": name, "in": loc, "required": True, "schema": copy.deepcopy(sch)}],
                                          "responses": {"200": {"description": "ok"}}}}
    # two operations in DIFFERENT tags whose distinct operationIds pythonise to the same module name ("op_xyz" and
    # "opXyz" both become op_xyz.py, one per tag package): legal, and each must still send its own request
    if r.random() < 0.2:
        cands = [(p_, m_) for p_, it in doc["paths"].items() if isinstance(it, dict) for m_, o in it.items()
                 if isinstance(o, dict) and re.fullmatch(r"op_[a-z]{3}", str(o.get("operationId") or "")) and not o.get("x-probe")]
        if cands:
            p_, m_ = cands[r.randrange(len(cands))]
            first = doc["paths"][p_][m_]
            multi = r.random() < 0.5  # (several tags each: with generate_all_tags every one of them gets its own copy of the module)
            first["tags"] = ["alpha-tag", "gamma_t"] if multi else ["alpha-tag"]
            tok = first["operationId"][3:]
            doc["paths"][f"/clash{tok}"] = {r.choice(["get", "post", "delete"]): {
                "operationId": "op" + tok.capitalize(), "tags": ["Beta", "delta_t"] if multi else ["Beta"],
                "parameters": [{"name": "clash_q", "in": "query", "required": True, "schema": {"type": "string"}}],
                "responses": {"200": {"description": "ok"}}}}
    return doc, cfg


def plan_args(op: dict, doc: dict, c: inst.Canary) -> dict:
    """Explicit arguments of one call: params [[name, in, J]] (absent optional ones are omitted),
    body [media_type, kind, J] or None."""
    r = c.rng
    params = []
    for p in op["params"]:
        required = p["required"] or p["in"] == "path"
        if not required and r.random() < 0.45:
            continue  # left UNSET
        url_safe: Any = "path" if p["in"] == "path" else p["in"] in ("header", "cookie")
        J = inst.gen(p["schema"], doc, c, depth=2, url_safe=url_safe, allow_null=(p["in"] == "query" and not required))
        if J is None and p["in"] != "query":
            continue
        params.append([p["name"], p["in"], J])
    body = None
    if op["bodies"]:
        b = r.choice(op["bodies"])
        J = inst.gen(b["schema"], doc, c, depth=0, allow_null=False)
        if b["kind"] == "multipart" and isinstance(J, dict):
            props, _rq, _a = inst.model_properties(b["schema"], doc)
            for k, v in J.items():
                if isinstance(v, dict) and "__bytes__" in v and r.random() < 0.6:
                    v["file_name"] = f"{c.token()}.bin"
                    if r.random() < 0.5:
                        v["mime_type"] = r.choice(["application/x-sim", "image/png"])
            J = {k: v for k, v in J.items() if v is not None and not k.startswith("extra_")}
        if b["kind"] == "form" and isinstance(J, dict):
            J = {k: v for k, v in J.items() if not k.startswith("extra_")}
        body = [b["media_type"], b["kind"], J]
    return {"params": params, "body": body}


def plan_server(op: dict, doc: dict, c: inst.Canary, prop: str, literal_enums: bool) -> dict:
    """Behaviour of the server for one call."""
    r = c.rng
    b: dict[str, Any] = {"latency": r.choice([0.0, 0.0, 0.001, 0.02, 0.3, 1.5, 4.0]), "fault": None, "headers": {"x-canary": c.token()}}
    x = r.random()
    p_fault = 0.08 if prop == "C04" else 0.12
    if x < p_fault:
        b["fault"] = r.choice(["connect-error", "read-error", "remote-protocol-error", "read-timeout", "cancel"])
        if b["fault"] == "read-timeout":
            b["latency"] = 1000.0
        if b["fault"] == "cancel":
            b["latency"] = r.choice([0.5, 2.0])
            b["cancel_at"] = b["latency"] / 2
    documented = [rs for rs in op["responses"] if not rs.get("noise")]  # noise responses are declared, never served
    undoc_p = 0.3 if prop == "C04" else 0.15
    if documented and r.random() >= undoc_p:
        rs = r.choice(documented)
        b.update(status=rs["status"], documented=True)
        if rs["source"] == "none":
            # documented without usable content: any body must be ignored
            b.update(media_type=None, content_hex="", J=None, source="none")
            if rs["media_type"] is not None and r.random() < 0.5:
                b.update(media_type=rs["media_type"], content_hex=b"ignored".hex())
        elif rs["source"] == "json":
            J = inst.gen(rs["schema"], doc, c, depth=0)
            mt = rs["media_type"] + r.choice(["", "", "; charset=utf-8"])
            b.update(media_type=mt, content_hex=json.dumps(J).encode().hex(), J=J, source="json")
        elif rs["source"] == "text":
            text = c.string()
            cs_ = r.choice(["", "; charset=utf-8", "; charset=iso-8859-1", "; charset=utf-16"]) if ";" not in rs["media_type"] else ""
            enc = {"; charset=iso-8859-1": "latin-1", "; charset=utf-16": "utf-16"}.get(cs_, "utf-8")
            b.update(media_type=rs["media_type"] + cs_, content_hex=text.encode(enc).hex(), J=text, source="text")
        else:
            data = c.bytes_()
            if r.random() < 0.08:
                data = b""  # a zero-length file is a file (replies only: request payloads stay unique so that parts are attributable)
            b.update(media_type=rs["media_type"], content_hex=data.hex(), J={"__bytes__": data.hex()}, source="bytes")
    else:
        doc_statuses = {rs["status"] for rs in op["responses"]}
        pool = [s for s in [203, 206, 302, 304, 402, 403, 405, 410, 418, 429, 501, 502, 504] if s not in doc_statuses]
        if r.random() < 0.35:
            pool = NON_ENUM_STATUSES
        st = r.choice(pool)
        x2 = r.random()
        if x2 < 0.5:
            body = json.dumps({"error": c.string()}).encode()
        elif x2 < 0.7:
            body = c.string().encode()
        elif x2 < 0.85:
            body = c.bytes_() + bytes([0xFF, 0xFE, 0x80, 0xC3]) + bytes(r.randrange(256) for _ in range(r.randint(0, 40)))  # not UTF-8
        else:
            body = (c.string() + " ").encode() * 3 + ("é" * r.randint(480, 1500)).encode()[r.randint(0, 1):]  # long, multi-byte characters at odd offsets
        b.update(status=st, documented=False, media_type=r.choice(["application/json", "text/plain", None]), content_hex=body.hex(), J=None, source="undocumented")
    return b


def build_spec(seed: int, prop: str, tier: str) -> dict:
    doc, cfg = make_doc(seed, prop)
    r = rng.stream(seed, "sessions")
    c = inst.Canary(rng.stream(seed, "canary"))
    rm.OVERRIDES.clear()
    rm.OVERRIDES.update(cfg.get("content_type_overrides") or {})
    ops = rm.operations(doc)
    sessions = []
    for _s in range(r.choice([1, 1, 2])):
        kind = r.choice(["plain", "auth", "auth"])
        usable = [o for o in ops if kind == "auth" or not o["security"]]
        client = {
            "kind": kind,
            "base_url": r.choice(["http://api.sim", "http://api.sim/", "https://api.sim/v1", "http://api.sim:8080/base/path/"]),
            "headers": {"X-Client-Default": c.token()} if r.random() < 0.5 else {},
            "cookies": {"client_cookie": c.token()} if r.random() < 0.4 else {},
            "timeout": r.choice([None, 5.0, 0.5, 30.0]),
            "raise_on_unexpected_status": r.random() < 0.5,
            "token": c.token(),
            "prefix": r.choice(["Bearer", "Bearer", "", "Token"]),
            "auth_header_name": r.choice(["Authorization", "Authorization", "X-Auth-Token"]),
            "context_manager": r.random() < 0.2,
        }
        groups: list[dict] = []
        n_calls = r.randint(5, 40 if tier == "thorough" else 24)
        made = 0
        while made < n_calls and usable:
            x = r.random()
            if x < 0.44:
                n = 1
                mode = "sync"
            elif x < 0.56:
                n = r.randint(2, 4)
                mode = "threads"  # blocking calls from several caller threads sharing the client object
            else:
                n = r.randint(1, 5)
                mode = "async"
            calls = []
            for _ in range(n):
                op = r.choice(usable)
                made += 1
                try:
                    call = {"cid": c._next(), "op": op["operationId"], "args": plan_args(op, doc, c), "server": plan_server(op, doc, c, prop, cfg["literal_enums"]),
                            "variant": r.choice(["detailed", "detailed", "plain"])}
                except (inst.Unsatisfiable, RecursionError):
                    continue  # a schema without a finite instance inside the bounds (mutually required models)
                calls.append(call)
            if not calls:
                continue
            if mode in ("sync", "threads"):
                for call in calls:
                    if call["server"].get("fault") == "cancel":
                        call["server"]["fault"] = None
            g: dict = {"mode": mode, "calls": calls}
            if mode == "threads":
                g["sched_seed"] = r.getrandbits(32)
                g["switch_p"] = r.choice([0.02, 0.05, 0.1, 0.25, 0.5])
                if r.random() < 0.4:  # pre-emption bounded schedule: 1-3 switches at uniformly drawn statement numbers
                    g["switch_steps"] = sorted(r.sample(range(1, 90 * n), r.choice([1, 1, 2, 3])))
            groups.append(g)
            # twin: the same call again in the other flavour (sync <-> asyncio) and/or the other variant
            if r.random() < 0.35:
                src = r.choice(calls)
                twin = copy.deepcopy(src)
                twin["variant"] = r.choice(["detailed", "plain"])
                twin["twin_of"] = src["cid"]
                twin["cid"] = c._next()
                # a retry: the caller passes the very same argument OBJECTS again (the same File with its half-read stream, the
                # same model instances) instead of building equal ones
                twin["reuse_args"] = r.random() < 0.5
                if twin["server"].get("fault") == "cancel":
                    twin["server"]["fault"] = None
                    src["server"]["fault"] = None
                groups.append({"mode": "sync" if mode == "async" else "async", "calls": [twin]})
                made += 1
            # multi-step client history: derive a new client object through the generated builder methods
            if r.random() < 0.1 and not client["context_manager"]:
                what = r.choice(["headers", "cookies", "timeout"])
                val: Any = {"X-Evolved-" + c.token(): c.token()} if what == "headers" else ({"evolved_" + c.token(): c.token()} if what == "cookies" else r.choice([0.5, 5.0, 30.0]))
                groups.append({"mode": "evolve", "what": what, "value": val, "calls": []})
        sessions.append({"client": client, "groups": groups})
    spec = {"hashseed": seed % 4, "doc": doc, "config": cfg, "sessions": sessions, "urandom_seed": seed % (2**32)}
    if r.random() < 0.15:
        spec["doc_channel"] = {"content_type": r.choice(["application/json", "application/json; charset=utf-8", "application/json; charset=ISO-8859-1", "application/json;charset=utf-16",
                                                       None, "text/plain; charset=us-ascii", "application/yaml", "application/octet-stream"])}
    return spec


# ---------------------------------------------------------------------- the world
class Pkg:
    """The generated package, imported, plus the name mapping taken from the generator's own objects
    (used only to be able to CALL the functions)."""

    def __init__(self, doc: dict, cfg: dict, sandbox: str, channel: dict | None = None) -> None:
        from pathlib import Path

        from sim import genrun

        self.errors: list[str] = []
        parent = os.path.join(sandbox, "pkgs")
        os.makedirs(parent, exist_ok=True)
        docpath = os.path.join(sandbox, "api.json")
        with open(docpath, "w") as f:
            json.dump(doc, f)
        cfgpath = genrun.write_config(sandbox, {"post_hooks": [], **cfg})
        src = ["--path", docpath]
        around = None
        if channel:
            # the document comes from a (simulated) document server: what it says ABOUT the bytes (content type, charset
            # label - truthful or not; JSON is UTF-8 whatever the label says, RFC 8259) must not change what they mean
            from sim.docserver import doc_url_channel

            with open(docpath, "rb") as f:
                body = f.read()
            src = ["--url", "http://docs.sim/openapi.json"]
            around = lambda: doc_url_channel(body, channel.get("content_type"), None, [])  # noqa: E731
        self.gen = genrun.run_cli(["generate", *src, "--config", cfgpath, "--meta", "none", "--output-path", os.path.join(parent, PKG)], around=around)
        self.ok = self.gen["exception"] is None and os.path.isdir(os.path.join(parent, PKG)) and not any(
            d["level"] == "ERROR" for d in self.gen["diagnostics"] or [])
        self.index: dict[str, dict] = {}
        # responses the generator declined WITH a diagnostic: (METHOD, path) -> {status: reason}
        self.declined_responses: dict[tuple[str, str], dict[int, str]] = {}
        for d in self.gen["diagnostics"] or []:
            mh = re.match(r"WARNING parsing (\w+) (\S+) within", d.get("header") or "")
            md = re.match(r"Cannot parse response for status code (\d+)(?: \((.*)\))?, response will be omitted", (d.get("detail") or "").replace("\n", " "))
            if mh and md:
                self.declined_responses.setdefault((mh.group(1).upper(), mh.group(2)), {})[int(md.group(1))] = md.group(2) or ""
        if not self.ok:
            return
        from openapi_python_client import utils
        from openapi_python_client.config import Config, ConfigFile, MetaType
        from openapi_python_client.parser.openapi import GeneratorData

        config = Config.from_sources(ConfigFile(post_hooks=[], **cfg), MetaType.NONE, Path(docpath), "utf-8", False, None)
        gd = GeneratorData.from_dict(copy.deepcopy(doc), config=config)
        for tag, coll in gd.endpoint_collections_by_tag.items():
            for ep in coll.endpoints:
                names = {}
                for loc, plist in (("path", ep.path_parameters), ("query", ep.query_parameters), ("header", ep.header_parameters), ("cookie", ep.cookie_parameters)):
                    for p in plist:
                        names[(p.name, loc)] = str(p.python_name)
                self.index.setdefault(ep.name, {"tag": str(tag), "module": str(utils.PythonIdentifier(ep.name, config.field_prefix)), "names": names,
                                                "bodies": [str(b.content_type) for b in ep.bodies], "has_diagnostics": bool(ep.errors)})
        self.root = genrun.import_package(parent, PKG)
        self.parent = parent
        self.pkg_dir = os.path.join(os.path.realpath(parent), PKG) + os.sep
        import importlib

        self.client_mod = importlib.import_module(f"{PKG}.client")
        self.models = importlib.import_module(f"{PKG}.models")
        self.types = importlib.import_module(f"{PKG}.types")
        self.errors_mod = importlib.import_module(f"{PKG}.errors")
        self._mods: dict[str, Any] = {}

    def module(self, opid: str) -> Any:
        import importlib

        if opid not in self._mods:
            e = self.index[opid]
            self._mods[opid] = importlib.import_module(f"{PKG}.api.{e['tag']}.{e['module']}")
        return self._mods[opid]


class World:
    def __init__(self, spec: dict, sandbox: str) -> None:
        from sim import apiserver

        self.spec = spec
        self.doc = spec["doc"]
        self.cfg = spec.get("config") or {}
        self.lit = bool(self.cfg.get("literal_enums"))
        rm.OVERRIDES.clear()
        rm.OVERRIDES.update(self.cfg.get("content_type_overrides") or {})
        inst.CLASS_OVERRIDES.clear()
        inst.CLASS_OVERRIDES.update(self.cfg.get("class_overrides") or {})
        self.ops = {o["operationId"]: o for o in rm.operations(self.doc) if o["operationId"]}
        self.pkg = Pkg(self.doc, self.cfg, sandbox, spec.get("doc_channel"))
        self.server = apiserver.Server()
        self.apiserver = apiserver
        self.viol: list[dict] = []
        self.log: list[str] = []
        self.faults: dict[str, int] = {}
        self.probes: dict[str, int] = {}
        self.states: set[str] = set()
        self.next_call = 0
        self.sim_time = 0.0

    def v(self, prop: str, kind: str, locus: str, detail: str) -> None:
        self.viol.append({"prop": prop, "kind": kind, "locus": locus, "detail": detail})

    def probe(self, k: str, n: int = 1) -> None:
        self.probes[k] = self.probes.get(k, 0) + n

    # ------------------------------------------------------------------ client construction
    def make_client(self, c: dict) -> Any:
        import httpx

        transport = self.apiserver.SimTransport(self.server)
        kw: dict[str, Any] = {"base_url": c["base_url"], "httpx_args": {"transport": transport}, "raise_on_unexpected_status": c["raise_on_unexpected_status"]}
        if c["headers"]:
            kw["headers"] = dict(c["headers"])
        if c["cookies"]:
            kw["cookies"] = dict(c["cookies"])
        if c["timeout"] is not None:
            kw["timeout"] = httpx.Timeout(c["timeout"])
        if c["kind"] == "auth":
            kw.update(token=c["token"], prefix=c["prefix"], auth_header_name=c["auth_header_name"])
            return self.pkg.client_mod.AuthenticatedClient(**kw)
        return self.pkg.client_mod.Client(**kw)

    # ------------------------------------------------------------------ one call
    def prepare(self, call: dict, sess_i: int) -> dict | None:
        opid = call["op"]
        op = self.ops.get(opid)
        if op is None:
            return None
        if opid not in self.pkg.index:
            self.probe("operation-declined-by-generator(skipped: C07)")
            return None
        mod = self.pkg.module(opid)
        names = self.pkg.index[opid]["names"]
        variant = call["variant"]
        if variant == "plain" and not hasattr(mod, "sync"):
            variant = "detailed"
        hints = {}
        try:
            hints = typing.get_type_hints(mod.sync_detailed)
        except Exception as e:  # noqa: BLE001
            self.probe("type-hints-unresolvable")
            self.log.append(f"hints {opid}: {type(e).__name__}")
        kwargs: dict[str, Any] = {}
        pargs = {}
        build_err = None
        for name, loc, J in call["args"]["params"]:
            p = next((p for p in op["params"] if p["name"] == name and p["in"] == loc), None)
            if p is None:
                continue  # parameter no longer in the (shrunk) document
            py = names.get((name, loc))
            if py is None:
                # the operation was generated, the document declares this parameter with a schema, yet the
                # function has no argument for it: the argument cannot be put where the document says it goes
                self.v("C03", "declared-parameter-not-accepted", loc, f"{opid}: parameter {name!r} in {loc} is declared by the document but the generated function has no argument for it (known names: {sorted(names)})")
                return None
            try:
                kwargs[py] = inst.py_value(p["schema"], J, self.doc, self.pkg.models, hints.get(py), self.pkg.types.File, self.lit)
            except Exception as e:  # noqa: BLE001
                build_err = f"cannot build argument {name!r} in {loc}: {type(e).__name__}: {e}"
                continue
            pargs[(name, loc)] = J
        for name, loc, J in call["args"]["params"]:
            p = next((p for p in op["params"] if p["name"] == name and p["in"] == loc), None)
            if p is not None and not inst.conforms(p["schema"], J, self.doc):
                self.probe("call-inconsistent-with-document(skipped: shrink artefact)")
                return None
        body = call["args"].get("body")
        exp_body = None
        if body is not None:
            bs = next((b for b in op["bodies"] if b["media_type"] == body[0]), None)
            if bs is not None and len(op["bodies"]) > 1 and inst.classify(bs["schema"], self.doc) == "any":
                self.probe("untyped-body-in-multi-body-operation(skipped: shrink artefact)")
                return None
            if bs is not None and not inst.conforms(bs["schema"], body[2], self.doc):
                self.probe("call-inconsistent-with-document(skipped: shrink artefact)")
                return None
            if bs is not None and body[0] not in self.pkg.index[opid]["bodies"]:
                if self.pkg.index[opid]["has_diagnostics"]:
                    # the generator declined this request media type WITH a diagnostic for the operation (C07's subject)
                    self.probe("body-media-type-declined-with-diagnostic(skipped: C07)")
                    return None
                self.v("C03", "declared-body-not-accepted", bs["kind"], f"{opid}: request media type {body[0]!r} is declared by the document, the operation was generated without any diagnostic, yet the function does not handle it (handled: {self.pkg.index[opid]['bodies']})")
                return None
            if bs is not None:
                try:
                    kwargs["body"] = inst.py_value(bs["schema"], body[2], self.doc, self.pkg.models, hints.get("body"), self.pkg.types.File, self.lit)
                    exp_body = (bs["media_type"], bs["kind"], bs["schema"], body[2])
                except Exception as e:  # noqa: BLE001
                    build_err = f"cannot build body for {body[0]}: {type(e).__name__}: {e}"
        # required parameters that the (shrunk) call no longer carries: the call is not executable
        for p in op["params"]:
            if (p["required"] or p["in"] == "path") and (p["name"], p["in"]) not in pargs:
                return None
        if build_err is not None:
            # the harness could not construct the Python argument (it goes through the generated from_dict, which is
            # C02's subject, not C03's): the call is skipped and counted, never judged
            self.probe("argument-unbuildable(skipped)")
            self.log.append(f"skip {opid}: {build_err[:160]}")
            return None
        if op["bodies"] and exp_body is None:
            return None
        self.next_call += 1
        cid = self.next_call
        first = getattr(self, "_prep_by_cid", {}).get((sess_i, call.get("twin_of")))
        if call.get("reuse_args") and first is not None and sorted(first["kwargs"]) == sorted(kwargs) and not (exp_body is not None and exp_body[1] == "octet"):
            # (a raw application/octet-stream body IS the stream: once sent it is consumed, which is the caller's business)
            kwargs = first["kwargs"]
            self.probe("twin-reuses-argument-objects")
        out = {"id": cid, "op": op, "opid": opid, "mod": mod, "variant": variant, "kwargs": kwargs, "pargs": pargs, "exp_body": exp_body,
               "call": call, "build_err": build_err, "sess": sess_i}
        if not hasattr(self, "_prep_by_cid"):
            self._prep_by_cid = {}
        self._prep_by_cid[(sess_i, call.get("cid"))] = out
        return out

    def behaviour(self, prep: dict) -> dict:
        b = dict(prep["call"]["server"])
        b["content"] = bytes.fromhex(b.get("content_hex") or "")
        return b

    # ------------------------------------------------------------------ running
    def run_sync(self, prep: dict, client: Any) -> dict:
        fn = getattr(prep["mod"], "sync" if prep["variant"] == "plain" else "sync_detailed")
        tok = self.apiserver.CURRENT_CALL.set(prep["id"])
        try:
            try:
                return {"ok": fn(client=client, **prep["kwargs"])}
            except BaseException as e:  # noqa: BLE001
                return {"exc": e}
        finally:
            self.apiserver.CURRENT_CALL.reset(tok)

    async def run_async_one(self, prep: dict, client: Any) -> dict:
        fn = getattr(prep["mod"], "asyncio" if prep["variant"] == "plain" else "asyncio_detailed")
        self.apiserver.CURRENT_CALL.set(prep["id"])
        try:
            return {"ok": await fn(client=client, **prep["kwargs"])}
        except asyncio.CancelledError as e:
            return {"exc": e}
        except BaseException as e:  # noqa: BLE001
            return {"exc": e}

    def run_group_async(self, preps: list[dict], client: Any) -> list[dict]:
        from sim import loop as simloop

        order: list[int] = []

        async def main() -> list[dict]:
            lp = asyncio.get_running_loop()
            tasks = []
            for p in preps:
                t = lp.create_task(self.run_async_one(p, client), name=f"call-{p['id']}")
                t.add_done_callback(lambda _t, pid=p["id"]: order.append(pid))
                b = p["call"]["server"]
                if b.get("fault") == "cancel":
                    lp.call_later(float(b.get("cancel_at") or 0.1), t.cancel)
                tasks.append(t)
            res = await asyncio.gather(*tasks, return_exceptions=True)
            return [x if isinstance(x, dict) else {"exc": x} for x in res]

        lp = simloop.SimLoop()
        out = simloop.run(main(), lp)
        self.sim_time += lp.time()
        lp.close()
        asyncio.set_event_loop(None)
        if len(preps) >= 3 and order != [p["id"] for p in preps]:
            self.probe("async-group>=3-out-of-order-completion")
        ids = [p["id"] for p in preps]
        # distinct interleavings: completion order of the group as a permutation of start positions
        self.states.add("sched|" + str(len(ids)) + "|" + ",".join(str(ids.index(x)) for x in order if x in ids))
        self.log.append(f"group async ids={[p['id'] for p in preps]} completion={order} vtime={lp.time():.4f}")
        return out

    def run_group_threads(self, preps: list[dict], client: Any, g: dict) -> list[dict]:
        """Blocking calls issued by several caller threads that share `client`; the interleaving (which thread executes
        the next statement of the generated package, and whose request reaches the server first) is drawn from the
        group's schedule seed by sim.threads.ThreadSched."""
        from sim import genrun
        from sim import threads as simthreads

        if not getattr(self, "_all_imported", False):
            genrun.import_all_modules(self.pkg.parent, PKG)  # no thread may meet an import lock while holding the baton
            self._all_imported = True
        sched = simthreads.ThreadSched(rng.stream(int(g.get("sched_seed") or 0), "threads"), (self.pkg.pkg_dir,), float(g.get("switch_p") or 0.1), g.get("switch_steps"))
        self.apiserver.THREAD_SCHED = sched
        try:
            out = sched.run([lambda p=p: self.run_sync(p, client) for p in preps])
        finally:
            self.apiserver.THREAD_SCHED = None
        ids = [p["id"] for p in preps]
        finish = [ids[t] for t in sched.finish_order]
        n_sw = len(sched.switches)
        self.probe("thread-groups")
        if g.get("switch_steps"):
            self.probe("thread-groups-preemption-bounded")
        self.probe("thread-switches", n_sw)
        if n_sw:
            self.probe("thread-group-interleaved")
        for _step, _a, _b, where in sched.switches:
            fn = where.split(":", 1)[0]
            if fn in ("_get_kwargs", "get_httpx_client", "_parse_response", "_build_response", "from_dict", "to_dict", "wire"):
                self.probe(f"thread-switch-inside:{fn}")
        self.states.add(f"tsched|{len(ids)}|{','.join(str(t) for t in sched.finish_order)}|{min(n_sw, 6)}")
        sw = hashlib.sha256(repr(sched.switches).encode()).hexdigest()[:12]
        self.log.append(f"group threads ids={ids} finish={finish} steps={sched.steps} switches={n_sw} schedule={sw}")
        return [x if isinstance(x, dict) else {"exc": RuntimeError(f"thread returned {x!r}")} for x in out]

    # ------------------------------------------------------------------ oracles
    def judge_call(self, prep: dict, res: dict, client_spec: dict) -> dict:
        """Returns the normalised observation used for twin comparison."""
        op, cid = prep["op"], prep["id"]
        b = self.behaviour(prep)
        reqs = [r_ for r_ in self.server.requests if r_["call"] == cid]
        cell = self._cell(prep)
        exc = res.get("exc")
        fault = b.get("fault")
        self.faults[fault or ("latency>0" if b["latency"] else "none")] = self.faults.get(fault or ("latency>0" if b["latency"] else "none"), 0) + 1
        obs: dict[str, Any] = {"req": None, "outcome": None}
        injected_exc = {"connect-error": "ConnectError", "read-error": "ReadError", "remote-protocol-error": "RemoteProtocolError",
                        "read-timeout": "ReadTimeout", "cancel": "CancelledError"}.get(fault or "")
        if fault == "cancel" and client_spec["timeout"] is not None and client_spec["timeout"] < float(b.get("cancel_at") or 0.0):
            injected_exc = "ReadTimeout"  # the client's own timeout fires before the cancellation is delivered
        if fault == "read-timeout" and client_spec["timeout"] is None:
            injected_exc = None  # a client without a timeout waits for ever: the slow response simply arrives
            fault = None
        timed_out = fault is None and client_spec["timeout"] is not None and b["latency"] > client_spec["timeout"]
        if timed_out:
            injected_exc = "ReadTimeout"
            self.probe("latency-above-client-timeout")
        # ---------------- C03: the request
        if len(reqs) == 0:
            if exc is not None and type(exc).__name__ != injected_exc:
                self.v("C03", "call-raised-instead-of-sending", f"{type(exc).__name__}@{self._culprit(exc, prep)}",
                       f"{prep['opid']} ({prep['variant']}) raised {type(exc).__name__}: {str(exc)[:200]} and sent no request; args={self._brief_args(prep)}")
            else:
                self.v("C03", "request-count", "0", f"call {cid} {prep['opid']} sent no request (outcome {self._brief(res)})")
            return obs
        if len(reqs) > 1:
            self.v("C03", "request-count", str(len(reqs)), f"call {cid} {prep['opid']} sent {len(reqs)} requests")
        req = reqs[0]
        base_path = re.sub(r"^[a-z]+://[^/]+", "", client_spec["base_url"]).rstrip("/")
        exp = rm.expected_request(op, {"params": prep["pargs"], "body": prep["exp_body"]}, self.doc, base_path)
        for k, val in client_spec["cookies"].items():
            exp["cookies"].setdefault(k, {val})  # client-level default cookies ride on every request
        allowed = set(HTTPX_OWN_HEADERS) | {k.lower() for k in client_spec["headers"]}
        if client_spec["kind"] == "auth":
            allowed.add(client_spec["auth_header_name"].lower())
        for kind, detail in rm.check_request(exp, req, self.doc, allowed):
            self.v("C03", kind, self._locus_for(kind, detail, prep), f"{prep['opid']} {op['method'].upper()} {op['path']} ({prep['variant']}/{prep.get('mode') or ('async' if prep.get('async') else 'sync')}): {detail}")
        # client defaults and credentials
        for k, val in client_spec["headers"].items():
            if req["headers"].get(k.lower()) != val:
                self.v("C03", "client-default-header-lost", "client", f"default header {k} not on the request of {prep['opid']}")
        if client_spec["kind"] == "auth":
            want = f"{client_spec['prefix']} {client_spec['token']}" if client_spec["prefix"] else client_spec["token"]
            got = req["headers"].get(client_spec["auth_header_name"].lower())
            if got != want:
                self.v("C03", "auth-header", "value", f"credential header {client_spec['auth_header_name']!r} is {got!r}, expected {want!r}")
        # the timeout the real client attached to the request
        if client_spec["timeout"] is not None and req["timeout"].get("read") != client_spec["timeout"]:
            self.v("C03", "timeout-not-propagated", "read", f"client timeout {client_spec['timeout']} but request carries {req['timeout']}")
        # isolation: no canary of another call on this request
        own = self._own_canaries(prep, client_spec)
        hay = req["raw_target"] + "\n" + "\n".join(f"{k}: {v}" for k, v in req["headers"].items()) + "\n" + req["content"].decode("utf-8", "replace")
        import urllib.parse

        hay = urllib.parse.unquote(hay)
        for tok in CANARY_RE.findall(hay):
            if tok not in own:
                self.v("C03", "cross-call-leak", "canary", f"request of call {cid} ({prep['opid']}) carries canary {tok!r} that belongs to another call")
                break
        obs["req"] = self._norm_req(req)
        # ---------------- C04: the outcome
        models_prefix = f"{PKG}.models"
        st = b["status"]
        detailed = prep["variant"] == "detailed"
        raise_flag = client_spec["raise_on_unexpected_status"]
        if injected_exc:
            if exc is None or type(exc).__name__ != injected_exc:
                self.v("C04", "fault-not-surfaced", injected_exc, f"{prep['opid']}: transport fault {fault or 'timeout'} but call ended with {self._brief(res)}")
            obs["outcome"] = ("exc", injected_exc)
            return obs
        if b.get("documented") and b.get("source") == "json" and not inst.conforms(self._resp_schema(op, st), b.get("J"), self.doc):
            self.probe("response-inconsistent-with-document(skipped: shrink artefact)")
            obs["outcome"] = None
            return obs
        shape = f"{'doc' if b.get('documented') else 'undoc'}:{b.get('source')}:{inst.classify(self._resp_schema(op, st), self.doc) if b.get('documented') and self._resp_schema(op, st) else '-'}"
        self.states.add(f"resp|{shape}|{'enum' if st not in NON_ENUM_STATUSES else 'non-enum'}|raise={raise_flag}|{prep['variant']}|{prep.get('mode') or ('async' if prep.get('async') else 'sync')}|{st}|{str(b.get('media_type')).split(';')[0].lower()}|{'slow' if b.get('latency') else 'fast'}")
        reason = self.pkg.declined_responses.get((op["method"].upper(), op["path"]), {}).get(st)
        if b.get("documented") and reason is not None:
            # The workload only documents responses of supported media types with schemas the generator supports, so a
            # response the generator DECLINED (with a warning) is a documented status that will not be decoded.
            self.v("C04", "documented-response-declined", re.sub(r"[A-Z][a-z]+[A-Za-z0-9_]*|/components/\S+|\d+", "*", reason)[:60],
                   f"{prep['opid']} status {st} ({b.get('media_type')}): the generator omitted this documented response: {reason[:200]!r}")
            obs["outcome"] = None
            return obs
        if b.get("documented"):
            if exc is not None:
                self.v("C04", "documented-status-raised", f"{type(exc).__name__}@{shape}", f"{prep['opid']} status {st} ({b.get('media_type')}): raised {type(exc).__name__}: {str(exc)[:300]}; body={b['content'][:200]!r}")
                obs["outcome"] = ("exc", type(exc).__name__)
                return obs
            val = res["ok"]
            schema = self._resp_schema(op, st)
            expected = inst.expected_norms(schema, b.get("J"), self.doc, self.lit) if b.get("source") != "none" else [None]
            if b.get("source") == "text":
                expected = [b["J"]]
            if b.get("source") == "bytes":
                expected = [("file", b["J"]["__bytes__"])]
            parsed = val.parsed if detailed else val
            if detailed:
                self._check_raw(val, b, prep)
            got = inst.norm(parsed, models_prefix)
            if not inst.norm_matches(got, expected):
                self.v("C04", "decode-mismatch", shape, f"{prep['opid']} status {st} {b.get('media_type')}: parsed {str(got)[:300]} expected one of {str(expected)[:300]}")
            obs["outcome"] = ("val", got)
        else:
            self.probe("undocumented-status")
            if st in NON_ENUM_STATUSES:
                self.probe("undocumented-status-outside-HTTPStatus")
            if raise_flag:
                self.probe("undocumented-status-with-raise-flag")
                ue = self.pkg.errors_mod.UnexpectedStatus
                if exc is None or not isinstance(exc, ue):
                    if exc is not None:
                        self.v("C04", "undocumented-status-other-exception", f"{type(exc).__name__}:{'in' if st not in NON_ENUM_STATUSES else 'not-in'}-HTTPStatus:raise", f"{prep['opid']} status {st} with raise_on_unexpected_status: {type(exc).__name__}: {str(exc)[:200]} instead of UnexpectedStatus")
                    else:
                        self.v("C04", "undocumented-status-not-raised", prep["variant"], f"{prep['opid']} status {st} with raise_on_unexpected_status returned {self._brief(res)}")
                elif exc.status_code != st or exc.content != b["content"]:
                    self.v("C04", "unexpected-status-payload", "payload", f"UnexpectedStatus carries {exc.status_code}/{exc.content[:40]!r}, server sent {st}/{b['content'][:40]!r}")
                obs["outcome"] = ("exc", type(exc).__name__ if exc is not None else "none")
            else:
                if exc is not None:
                    self.v("C04", "undocumented-status-other-exception", f"{type(exc).__name__}:{'in' if st not in NON_ENUM_STATUSES else 'not-in'}-HTTPStatus:noraise", f"{prep['opid']} status {st} (flag off): raised {type(exc).__name__}: {str(exc)[:200]}")
                    obs["outcome"] = ("exc", type(exc).__name__)
                else:
                    val = res["ok"]
                    parsed = val.parsed if detailed else val
                    if parsed is not None:
                        self.v("C04", "undocumented-status-fabricated-value", prep["variant"], f"{prep['opid']} status {st} is undocumented but parsed={str(parsed)[:200]}")
                    if detailed:
                        self._check_raw(val, b, prep)
                    obs["outcome"] = ("val", None)
        return obs

    def _check_raw(self, val: Any, b: dict, prep: dict) -> None:
        try:
            if int(val.status_code) != b["status"]:
                self.v("C04", "raw-status", "status_code", f"Response.status_code {val.status_code!r} != {b['status']}")
            if val.content != b["content"]:
                self.v("C04", "raw-content", "content", f"Response.content {val.content[:60]!r} != sent {b['content'][:60]!r}")
            for k, v_ in (b.get("headers") or {}).items():
                if val.headers.get(k) != v_:
                    self.v("C04", "raw-headers", "headers", f"Response.headers[{k!r}] = {val.headers.get(k)!r}, sent {v_!r}")
                # the RAW headers: HTTP field names are case-insensitive, a copy into a plain dict loses that
                elif val.headers.get(k.title()) != v_ or val.headers.get(k.upper()) != v_:
                    self.v("C04", "raw-headers", "case-insensitivity", f"Response.headers is not the raw header object: lookup of {k.title()!r} gives {val.headers.get(k.title())!r}, of {k!r} gives {v_!r} (type {type(val.headers).__name__})")
        except Exception as e:  # noqa: BLE001
            self.v("C04", "raw-fields-unreadable", type(e).__name__, f"{prep['opid']}: {type(e).__name__}: {e}")

    def _resp_schema(self, op: dict, status: int) -> dict | None:
        for rs in op["responses"]:
            if rs["status"] == status:
                return rs["schema"]
        return None

    def _cell(self, prep: dict) -> str:
        op = prep["op"]
        ps = sorted(f"{p['in']}:{inst.classify(p['schema'], self.doc)}" for p in op["params"] if (p["name"], p["in"]) in prep["pargs"])
        bk = prep["exp_body"][1] if prep["exp_body"] else "-"
        return ",".join(ps)[:80] + f"|body:{bk}"

    def _culprit(self, exc: BaseException, prep: dict) -> str:
        """Coarse, deterministic attribution of a raise-instead-of-send to the argument cell that causes it
        (used to group violations; the minimised replay shows the exact input)."""
        msg = str(exc)
        op = prep["op"]

        def cells(loc: str, skip: tuple[str, ...]) -> str:
            ks = sorted({f"{loc}:{self._kind_detail(p['schema'])}" for p in op["params"] if p["in"] == loc and (p["name"], loc) in prep["pargs"]
                         and self._kind_detail(p["schema"]) not in skip})
            return ",".join(ks)

        if isinstance(exc, RuntimeError) and "AsyncClient instance" in msg:
            return f"asyncio+body:{prep['exp_body'][1] if prep['exp_body'] else '-'}"
        if isinstance(exc, TypeError) and "Header value must be" in msg:
            return cells("header", ("string", "enum:str")) or self._cell(prep)
        if isinstance(exc, TypeError) and "expected string or bytes-like object" in msg:
            return cells("cookie", ("string", "enum:str")) or self._cell(prep)
        return self._cell(prep)

    def _kind_detail(self, schema: dict) -> str:
        k = inst.classify(schema, self.doc)
        if k == "enum":
            vals = [v for v in inst.resolve(schema, self.doc).get("enum", []) if v is not None]
            return "enum:int" if vals and isinstance(vals[0], int) else "enum:str"
        return k

    def _locus_for(self, kind: str, detail: str, prep: dict) -> str:
        op = prep["op"]
        if kind == "body":
            return f"{prep['exp_body'][1] if prep['exp_body'] else 'none'}:{'multi' if len(op['bodies']) > 1 else 'single'}"
        loc = {"query": "query", "cookie": "cookie", "header-missing": "header", "header-value": "header", "path-slot": "path"}.get(kind)
        if loc:
            m = re.search(r"(?:parameter|cookie|header|placeholder) \{?'?([^'} ]+)'?\}?", detail)
            if m:
                name = m.group(1)
                p = next((p for p in op["params"] if p["name"].lower() == name.lower() and p["in"] == loc), None)
                if p is not None:
                    return f"{loc}:{inst.classify(p['schema'], self.doc)}"
            return loc
        return ""

    def _own_canaries(self, prep: dict, client_spec: dict) -> set[str]:
        txt = json.dumps([prep["call"]["args"], client_spec], ensure_ascii=False)
        return set(CANARY_RE.findall(txt))

    @staticmethod
    def _norm_req(req: dict) -> dict:
        ct = req["headers"].get("content-type", "")
        content = req["content"]
        m = re.search(r'boundary="?([^";]+)"?', ct)
        if m:
            content = content.replace(m.group(1).encode(), b"BOUNDARY")
            ct = ct.replace(m.group(1), "BOUNDARY")
        hdrs = {k: v for k, v in req["headers"].items() if k not in ("content-length", "content-type")}
        return {"method": req["method"], "target": req["raw_target"], "headers": hdrs, "ctype": ct, "content": content.hex()}

    @staticmethod
    def _brief(res: dict) -> str:
        # never let object addresses into the event log (replay fingerprints are compared across processes)
        if "exc" in res:
            return re.sub(r"0x[0-9a-fA-F]+", "0x", f"exception {type(res['exc']).__name__}: {str(res['exc'])[:120]}")
        return re.sub(r"0x[0-9a-fA-F]+", "0x", f"value {str(res.get('ok'))[:120]}")

    @staticmethod
    def _brief_args(prep: dict) -> str:
        return json.dumps(prep["call"]["args"], ensure_ascii=False)[:300]

    # ------------------------------------------------------------------ static checks on the imported package
    def check_signatures(self) -> None:
        for opid, op in self.ops.items():
            if opid not in self.pkg.index:
                continue
            mod = self.pkg.module(opid)
            for fname in ("sync_detailed", "asyncio_detailed", "sync", "asyncio"):
                fn = getattr(mod, fname, None)
                if fn is None:
                    continue
                ann = inspect.signature(fn).parameters["client"].annotation
                is_auth_only = ann is self.pkg.client_mod.AuthenticatedClient
                if op["security"] and not is_auth_only and op.get("security_inherited"):
                    self.v("C03", "root-security-not-demanded", fname, f"{opid} has no `security` of its own and inherits the document-level security requirement, but {fname}(client: {ann}) accepts an unauthenticated client")
                elif op["security"] and not is_auth_only:
                    self.v("C03", "security-not-demanded", fname, f"{opid} has security requirements but {fname}(client: {ann}) accepts an unauthenticated client")
                if not op["security"] and is_auth_only:
                    self.v("C03", "security-demanded-without-requirement", fname, f"{opid} has no security requirements but {fname} demands AuthenticatedClient")

    # ------------------------------------------------------------------ whole world
    def run(self) -> None:
        import os as _os

        if not self.pkg.ok:
            self.probe("generation-failed(skipped: C06)")
            return
        real_urandom = _os.urandom
        _os.urandom = self.apiserver.seeded_urandom(rng.stream(self.spec.get("urandom_seed", 0), "urandom"))
        try:
            self.check_signatures()
            for si, sess in enumerate(self.spec["sessions"]):
                client = self.make_client(sess["client"])
                cs = sess["client"]
                if cs.get("context_manager"):
                    client.__enter__()
                observations: dict[Any, dict] = {}
                for gi, g in enumerate(sess["groups"]):
                    if g["mode"] == "evolve":
                        import httpx

                        if g["what"] == "headers":
                            client = client.with_headers(dict(g["value"]))
                            cs = dict(cs, headers={**cs["headers"], **g["value"]})
                        elif g["what"] == "cookies":
                            client = client.with_cookies(dict(g["value"]))
                            cs = dict(cs, cookies={**cs["cookies"], **g["value"]})
                        else:
                            client = client.with_timeout(httpx.Timeout(g["value"]))
                            cs = dict(cs, timeout=g["value"])
                        self.probe(f"client-evolved:{g['what']}")
                        self.log.append(f"evolve {g['what']}")
                        continue
                    preps = []
                    for ci, call in enumerate(g["calls"]):
                        p = self.prepare(call, si)
                        if p is not None:
                            p["async"] = g["mode"] == "async"
                            p["mode"] = g["mode"]
                            p["pos"] = call.get("cid", (gi, ci))
                            self.server.plan(p["id"], self.behaviour(p))
                            preps.append(p)
                    if not preps:
                        continue
                    if g["mode"] == "sync":
                        results = [self.run_sync(p, client) for p in preps]
                    elif g["mode"] == "threads":
                        results = self.run_group_threads(preps, client, g)
                    else:
                        results = self.run_group_async(preps, client)
                    for p, res in zip(preps, results):
                        self.log.append(f"call {p['id']} {p['opid']} {p['variant']} {g['mode']} -> {self._brief(res)[:100]}")
                        observations[p["pos"]] = self.judge_call(p, res, cs)
                        self.states.add(f"req|{self._cell(p)}|{p['variant']}|{g['mode']}|{p['call']['server'].get('fault')}")
                    for p in preps:
                        src = p["call"].get("twin_of")
                        if src is None or src not in observations:
                            continue
                        a, b = observations[src], observations[p["pos"]]
                        self.probe("twin-pairs-compared")
                        if a["req"] is not None and b["req"] is not None and a["req"] != b["req"]:
                            diff = [k for k in a["req"] if a["req"][k] != b["req"][k]]
                            self.v("C03", "twin-request-differs", ",".join(diff), f"{p['opid']}: sync/asyncio or detailed/plain twins sent different requests; differing fields {diff}: {str({k: (a['req'][k], b['req'][k]) for k in diff})[:400]}")
                        if a["outcome"] is not None and b["outcome"] is not None and a["outcome"] != b["outcome"]:
                            self.v("C04", "twin-outcome-differs", "outcome", f"{p['opid']}: twins ended differently: {str(a['outcome'])[:200]} vs {str(b['outcome'])[:200]}")
                # history check: every request belongs to exactly one call
                for r_ in self.server.requests:
                    if r_["call"] is None:
                        self.v("C03", "unattributed-request", r_["method"], f"request {r_['method']} {r_['raw_target']} without a call")
                if cs.get("context_manager"):
                    client.__exit__(None, None, None)
        finally:
            _os.urandom = real_urandom
        self.sim_time += self.server.sync_clock
        self.log.extend(self.server.events)


def run_world(spec: dict, sandbox: str, want_log: bool = False) -> dict:
    import warnings

    warnings.simplefilter("ignore")
    w = World(spec, sandbox)
    w.run()
    log = [f"spec {hashlib.sha256(json.dumps(spec, sort_keys=True).encode()).hexdigest()[:16]} hashseed={os.environ.get('PYTHONHASHSEED')}"] + w.log
    n_calls = w.next_call
    return {
        "all_violations": w.viol,
        "faults": w.faults,
        "probes": dict(w.probes, calls=n_calls),
        "states": sorted(w.states),
        "fingerprint": rng.fingerprint(log),
        "sim_time": w.sim_time,
        "n_calls": n_calls,
        "log": log if want_log else None,
    }


# ---------------------------------------------------------------------- shrinking (shared)
def count_empty_schemas(x: Any, key: Any = None) -> int:
    n = 0
    if isinstance(x, dict):
        if not x and key in ("schema", "items", "additionalProperties", "__member__", "__prop__"):
            n += 1
        for k, v in x.items():
            if k == "properties" and isinstance(v, dict):
                n += sum(count_empty_schemas(pv, "__prop__") for pv in v.values())
            else:
                n += count_empty_schemas(v, k)
    elif isinstance(x, list):
        n += sum(count_empty_schemas(v, "__member__" if key in ("oneOf", "anyOf", "allOf", "prefixItems") else None) for v in x)
    return n


def spec_size(spec: dict) -> dict:
    return {"doc_nodes": docgen.count_nodes(spec["doc"]), "sessions": len(spec["sessions"]),
            "calls": sum(len(g["calls"]) for s in spec["sessions"] for g in s["groups"])}


def shrink_candidates(spec: dict) -> list[dict]:
    from sim import driver

    out: list[dict] = []
    ss = spec["sessions"]
    if len(ss) > 1:
        for i in range(len(ss)):
            s = copy.deepcopy(spec)
            del s["sessions"][i]
            out.append(s)
    for si, sess in enumerate(ss):
        gs = sess["groups"]
        n = len(gs)
        if n > 1:
            for lo, hi in ((0, n // 2), (n // 2, n)):
                s = copy.deepcopy(spec)
                keep = [g for k, g in enumerate(gs) if not (lo <= k < hi)]
                s["sessions"][si]["groups"] = copy.deepcopy(keep)
                out.append(s)
            for k in range(n):
                s = copy.deepcopy(spec)
                keep = [g for j, g in enumerate(gs) if j != k]
                s["sessions"][si]["groups"] = copy.deepcopy(keep)
                out.append(s)
        for gi, g in enumerate(gs):
            if len(g["calls"]) > 1:
                for ci in range(len(g["calls"])):
                    s = copy.deepcopy(spec)
                    del s["sessions"][si]["groups"][gi]["calls"][ci]
                    out.append(s)
    # simplify server behaviour and client
    for si, sess in enumerate(ss):
        c = sess["client"]
        simple = dict(c, headers={}, cookies={}, timeout=None, context_manager=False, base_url="http://api.sim")
        if simple != c:
            s = copy.deepcopy(spec)
            s["sessions"][si]["client"] = simple
            out.append(s)
    if spec.get("doc_channel"):
        s = copy.deepcopy(spec)
        s.pop("doc_channel")
        out.append(s)
    if any(v is True for v in (spec.get("config") or {}).values()):
        s = copy.deepcopy(spec)
        s["config"] = {k: (False if isinstance(v, bool) else v) for k, v in spec["config"].items()}
        out.append(s)
    used_ops = {c["op"] for s_ in ss for g in s_["groups"] for c in g["calls"]}

    def protect(p: tuple) -> bool:
        return p in (("info",), ("info", "title"), ("info", "version"), ("openapi",), ("paths",))

    # never let delta debugging turn a typed schema into the empty schema {} ("anything"): the shrunk document would
    # describe another API, and the generator treats untyped schemas specially (no parsing, Any)
    n_empty = count_empty_schemas(spec["doc"])
    for d in driver.tree_candidates(spec["doc"], limit=260, protect=protect):
        if count_empty_schemas(d) > n_empty:
            continue
        s = copy.deepcopy(spec)
        s["doc"] = d
        out.append(s)
    del used_ops
    return out


