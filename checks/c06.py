"""C06 — every failure is a diagnostic: the generator never crashes or hangs.

World: valid document -> faults on the document channel (tree / bytes / corpus / network) ->
REAL CLI in-process under the FS op log and a deterministic step budget.
Oracle: terminates; no unhandled exception; exit status <=> diagnostics; every diagnostic is
printed; a whole-document rejection writes nothing.
"""
from __future__ import annotations

import base64
import copy
import hashlib
import json
import os
import re
from typing import Any

from sim import docgen, driver, faults, rng

PROP = "C06"
LEVEL = "fault_enumeration"
FN_SEED = "checks.c06:run_seed"
FN_SPEC = "checks.c06:run_spec"
TIMEOUT_IS_VIOLATION = True
RULE = (
    "seed -> valid document (docgen swarm toggles) -> fault list on the document channel: tree faults at JSON pointers "
    "(delete/dup/swap/replace by junk/merge contradictory keywords/reference cycles), byte faults on the serialised "
    "document (truncate, bit flip, span delete/dup, junk insert, UTF-16), fixed corpus of non-documents, network faults "
    "on the URL channel; thorough tier enumerates the complete single-tree-fault space of each seed document. "
    "A case is non-trivial when at least one fault was applied; distinct = distinct (fault kind, pointer class of the "
    "locus, outcome class) triples."
)
STATE_MEASURE = "distinct (fault kind, JSON-pointer class of the locus, outcome class in {accepted, warnings, rejected})"
REAL = ["typer/click CLI", "openapi_python_client (loader, pydantic validation, parser, templates, Project.build)", "httpx client stack for --url", "ruamel.yaml / json", "tmpfs file system"]
STUB = ["document server + network behind httpx.get (DocServerTransport)", "jinja2 bytecode cache (in-memory, output byte-identical)"]
ASSUMPTIONS = [
    "documents <= 64 KiB, nesting <= bounds of DESIGN 2.4; stack-depth failures on deeper input are not explored",
    "post-hooks off, output location absent beforehand; file-system errors on the document path are outside the quantifier",
    "a loop that never returns to Python bytecode is only caught by the 120 s wall-clock backstop",
]

STEP_LIMIT = 12_000_000  # ~40x the largest fault-free run of the workload (<= 0.3 M steps); the e2e baseline document needs 0.93 M
METAS = ["poetry", "pdm", "setup", "none"]


def plan(tier: str, seed: int) -> dict:
    if tier == "quick":
        return {"n_runs": 1_000_000, "budget_s": 60, "min_runs": 100, "minimise_s": 40}
    return {"n_runs": 100_000_000, "budget_s": 900, "min_runs": 1000, "minimise_s": 90}


# ---------------------------------------------------------------------- spec construction
def base_document(seed: int) -> tuple[dict, dict]:
    return docgen.generate(rng.stream(seed, "doc"))


def build_spec(seed: int, tier: str, enum_index: int | None = None, doc_seed: int | None = None) -> dict:
    r = rng.stream(seed, "faults")
    a = rng.stream(seed, "args")
    doc, meta = base_document(doc_seed if doc_seed is not None else seed)
    spec: dict[str, Any] = {
        "hashseed": seed % 4,
        "doc": doc,
        "ser": a.choice(["json", "json", "json-compact", "yaml", "yaml", "yaml-flow"]),
        "byte_faults": [],
        "applied": [],
        "meta": a.choice(METAS),
        "fail_on_warning": a.random() < 0.3,
        "output": a.choice(["explicit", "explicit", "derived"]),
        "config": docgen.random_config(a, doc),
        "step_limit": STEP_LIMIT,
        "mode": "tree",
        # state of the output location before the command: absent (the usual case), or an existing directory
        # with content, with or without --overwrite: a rejected document must leave it untouched either way
        "precreate": a.choice([None, None, None, None, "with-overwrite", "with-overwrite", "without-overwrite"]),
        # post-hooks are real subprocesses: none (usual), succeeding, missing from PATH (warning), failing (error-level diagnostic)
        "post_hooks": a.choice([[], [], [], [], [], ["true"], ["verif_missing_cmd"], ["false"], ["verif_missing_cmd", "false"], ["false", "verif_missing_cmd"], ["true", "false"],
                                # a failing hook whose complaint is not UTF-8 (a formatter quoting a binary file, a tool in another locale)
                                ["printf 'bad \\377\\376 bytes' >&2; false"], ["printf '\\303' ; false"]]),
        "yaml_native": a.choice([None, None, None, 0, 1, 2]),
    }
    # --file-encoding: the default, encodings that cannot represent every character of a document, one with a BOM, and a
    # name that is not an encoding at all (must be refused before anything is read or written)
    spec["file_encoding"] = a.choice([None] * 12 + ["ascii", "latin-1", "cp1252", "utf-16", "verif-bogus"])
    if enum_index is not None:
        space = faults.single_fault_space(doc)
        f = space[enum_index % len(space)]
        spec["applied"] = [f]
        spec["mode"] = "enum"
        _apply_tree(spec, [f])
        spec["channel"] = _channel(a, spec["ser"], None)
        return spec
    m = r.random()
    net_fault = None
    if m < 0.60:
        k = r.choice([1, 1, 1, 1, 1, 2, 2, 3, 4])
        fl = faults.sample_tree_faults(doc, r, k)
        spec["applied"] = fl
        _apply_tree(spec, fl)
    elif m < 0.80:
        spec["mode"] = "bytes"
        data = faults.dumps(doc, spec["ser"])
        bf = [faults.sample_byte_fault(data, r) for _ in range(r.choice([1, 1, 1, 2]))]
        spec["byte_faults"] = bf
        spec["applied"] = bf
    elif m < 0.88:
        spec["mode"] = "corpus"
        i = r.randrange(len(faults.CORPUS))
        spec["doc"] = None
        spec["payload_b64"] = base64.b64encode(faults.CORPUS[i][1]).decode()
        spec["applied"] = [{"t": "corpus", "name": faults.CORPUS[i][0]}]
    elif m < 0.95:
        spec["mode"] = "net"
        from sim.docserver import NET_FAULTS

        net_fault = r.choice(NET_FAULTS)
        spec["applied"] = [{"t": "net", "kind": net_fault}]
    else:
        spec["mode"] = "fault-free"
    spec["channel"] = _channel(a, spec["ser"], net_fault)
    return spec


def _apply_tree(spec: dict, fl: list[dict]) -> None:
    doc = spec["doc"]
    applied = []
    for f in fl:
        try:
            doc = faults.apply_tree_fault(doc, f)
            applied.append(f)
        except faults.FaultNotApplicable:
            continue
        except (KeyError, IndexError, TypeError):
            continue
    spec["doc"] = doc
    spec["applied"] = applied


def _channel(a, ser: str, net_fault: str | None) -> dict:
    if net_fault is not None or a.random() < 0.2:
        cts = ["application/json", "application/yaml", "text/yaml", "text/plain; charset=utf-8", "application/json; charset=utf-8", None, "application/octet-stream", "", "application/x-yaml"]
        if ser.startswith("json"):
            ct = a.choice(["application/json", "application/json", "application/json; charset=utf-8", *cts])
        else:
            ct = a.choice(["application/yaml", "text/yaml", *cts])
        url = a.choice(["http://sim.test/openapi.json", "http://sim.test/openapi.yaml", "https://sim.test/api/spec", "http://sim.test/openapi"])
        if net_fault is None and a.random() < 0.12:
            # the --url argument itself is junk: what httpx makes of it (InvalidURL, UnsupportedProtocol, a request to
            # some other host) is the real code's business; the stub transport only ever sees well-formed requests
            url = a.choice(["http://[::1", "http://sim.test:99999/x", "http://", "not a url", "file:///etc/passwd", "http://exa mple.com/a", "http://sim.test/a\nb",
                            "htp://sim.test/x", "//sim.test/x", "http://sim.test/\u00e9\u2615", "http://user:pa ss@sim.test/", "http://sim.test/" + "a" * 70000, "http://sim.test/%zz?#"])
        return {"kind": "url", "content_type": ct, "net_fault": net_fault, "url": url}
    if ser.startswith("json"):
        ext = a.choice([".json", ".json", ".json", ".yaml", ""])
    else:
        ext = a.choice([".yaml", ".yml", ".yaml", "", ".json", ".txt"])
    # the document file may not be there at all, be a directory, or a dangling symbolic link
    return {"kind": "file", "ext": ext, "state": a.choice([None] * 16 + ["missing", "directory", "dangling-symlink"])}


def payload_of(spec: dict) -> bytes:
    if spec.get("payload_b64") is not None:
        data = base64.b64decode(spec["payload_b64"])
    else:
        doc = spec["doc"]
        if spec.get("yaml_native") is not None and spec["ser"].startswith("yaml"):
            doc = faults.add_yaml_native(doc, spec["yaml_native"])
        data = faults.dumps(doc, spec["ser"])
    for bf in spec.get("byte_faults") or []:
        data = faults.apply_byte_fault(data, bf)
    return data


# ---------------------------------------------------------------------- execution
def run_seed(args: dict, sandbox: str) -> dict:
    spec = build_spec(args["seed"], args.get("tier", "quick"), args.get("enum_index"), args.get("doc_seed"))
    res = run_spec({"spec": spec}, sandbox)
    if not res.get("violations"):
        res.pop("spec", None)
    return res


def run_spec(args: dict, sandbox: str) -> dict:
    from sim import fsseam, genrun, steps
    from sim.docserver import doc_url_channel

    spec = args["spec"]
    log: list[str] = [f"spec {hashlib.sha256(json.dumps(spec, sort_keys=True).encode()).hexdigest()[:16]} hashseed={os.environ.get('PYTHONHASHSEED')}"]
    P = os.path.join(sandbox, "P")
    work = os.path.join(P, "work")
    os.makedirs(work)
    data = payload_of(spec)
    ch = spec["channel"]
    cfgpath = genrun.write_config(sandbox, {"post_hooks": list(spec.get("post_hooks") or []), **(spec.get("config") or {})})
    argv = ["generate", "--config", cfgpath, "--meta", spec["meta"]]
    if ch["kind"] == "file":
        docpath = os.path.join(sandbox, "document" + ch["ext"])
        if ch.get("state") == "missing":
            pass  # --path names a file that does not exist
        elif ch.get("state") == "directory":
            os.makedirs(docpath)  # --path names a directory
        elif ch.get("state") == "dangling-symlink":
            os.symlink(os.path.join(sandbox, "nowhere"), docpath)
        else:
            with open(docpath, "wb") as f:
                f.write(data)
        argv += ["--path", docpath]
    else:
        argv += ["--url", ch["url"]]
    if spec["fail_on_warning"]:
        argv.append("--fail-on-warning")
    if spec.get("file_encoding"):
        argv += ["--file-encoding", spec["file_encoding"]]
    out = os.path.join(P, "out")
    if spec["output"] == "explicit":
        argv += ["--output-path", out]
        if spec.get("precreate"):
            os.makedirs(os.path.join(out, "keep"))
            earlier = [("README.md", b"# an earlier client\n"), ("keep/notes.txt", b"user notes\n"), ("pyproject.toml", b"[tool.old]\n")]
            # ... an earlier client that was USED: modules of documents past and the byte-code directories an import
            # leaves behind, at the root (--meta none) and in the package directory of the other flavours
            for pkg in ("", "sim_api_client/"):
                earlier += [(pkg + "__init__.py", b""), (pkg + "client.py", b"# old\n"), (pkg + "models/__init__.py", b""), (pkg + "models/old_model.py", b"# old\n"),
                            (pkg + "models/__pycache__/old_model.cpython-312.pyc", b"\x00pyc"), (pkg + "api/__init__.py", b""), (pkg + "api/old_tag/__init__.py", b""),
                            (pkg + "api/old_tag/old_op.py", b"# old\n"), (pkg + "api/old_tag/__pycache__/old_op.cpython-312.pyc", b"\x00pyc"),
                            (pkg + "api/__pycache__/__init__.cpython-312.pyc", b"\x00pyc"), (pkg + "__pycache__/client.cpython-312.pyc", b"\x00pyc")]
            for rel, data in earlier:
                os.makedirs(os.path.dirname(os.path.join(out, rel)), exist_ok=True)
                with open(os.path.join(out, rel), "wb") as f:
                    f.write(data)
            if spec["precreate"] == "with-overwrite":
                argv.append("--overwrite")
    os.chdir(work)
    before = genrun.snapshot(P)
    seam = fsseam.FsSeam(P)
    budget = steps.StepBudget(spec.get("step_limit", STEP_LIMIT))
    import contextlib

    @contextlib.contextmanager
    def around():
        with contextlib.ExitStack() as st:
            if ch["kind"] == "url":
                st.enter_context(doc_url_channel(data, ch.get("content_type"), ch.get("net_fault"), log))
            st.enter_context(seam)
            st.enter_context(budget)
            yield

    res = genrun.run_cli(argv, around=around)
    os.chdir(sandbox)
    after = genrun.snapshot(P)
    log.extend(seam.lines())
    violations: list[dict] = []
    diags = res["diagnostics"]
    outcome = "?"
    if seam.escapes:
        e0 = seam.escapes[0]
        violations.append({"kind": "write-outside-sandbox", "locus": e0["op"], "detail": f"mutating {e0['op']} on {e0['path']} attempted outside the sandbox (blocked); argv={argv}"})
    elif res["base_exception"]:
        if res["exception"] == "StepBudgetExceeded":
            # one class for all step-budget hangs: where the budget happens to trip is not a stable locus
            violations.append({"kind": "hang-steps", "locus": "", "detail": f"no termination within {budget.limit} steps (tripped in {budget_locus(budget)}); argv={argv}"})
            outcome = "hang"
        else:
            violations.append({"kind": "harness-base-exception", "locus": res["exception"], "detail": res["exception_msg"]})
    elif res["exception"] is not None:
        locus = f"{res['exception']}@{genrun.tb_locus(res['tb'])}"
        if res["exception"] == "RecursionError":
            # where the interpreter's stack happens to run out is not a stable locus; the PHASE is (load / parse / build)
            tb = res["tb"]
            phase = "build" if re.search(r", in (build|_build_\w+)\n", tb) else "parse" if ", in from_dict\n" in tb else "load" if "_load_yaml_or_json" in tb else "other"
            locus = f"RecursionError@{phase}"
        violations.append({"kind": "crash", "locus": locus, "detail": f"unhandled {res['exception']}: {res['exception_msg']}\n{res['tb'][-1200:]}"})
        outcome = "crash"
    else:
        if diags is None and spec.get("file_encoding") == "verif-bogus":
            outcome = "refused-encoding"
            if res["exit_code"] != 1 or "Unknown encoding" not in (res["stdout"] + res["stderr"]):
                violations.append({"kind": "unknown-encoding-not-refused", "locus": f"exit={res['exit_code']}", "detail": (res["stdout"] + res["stderr"])[-300:]})
            if seam.mutating_ok():
                violations.append({"kind": "rejected-but-wrote", "locus": seam.mutating_ok()[0]["op"], "detail": f"unknown --file-encoding refused but the file system was changed: {[(r_['op'], r_['path']) for r_ in seam.mutating_ok()[:5]]}"})
        elif diags is None:
            violations.append({"kind": "no-generate-call", "locus": f"exit={res['exit_code']}", "detail": res["stderr"][-500:]})
        else:
            has_error = any(d["level"] == "ERROR" for d in diags)
            expect_nonzero = has_error or (spec["fail_on_warning"] and len(diags) > 0)
            outcome = "rejected" if has_error else ("warnings" if diags else "accepted")
            for d in diags:
                log.append(f"diag {d['level']} {d['cls']} {(d['header'] or '')[:120]!r}")
            if (res["exit_code"] != 0) != expect_nonzero:
                violations.append({
                    "kind": "exit-status",
                    "locus": f"exit={res['exit_code']} error_diag={has_error} fail_on_warning={spec['fail_on_warning']}",
                    "detail": f"exit status {res['exit_code']} but diagnostics levels {[d['level'] for d in diags][:10]}",
                })
            for d in diags:
                h = d["header"]
                # (compared modulo white space: a header may quote document text with CR / LF / TAB, which the terminal layer folds)
                if h and h.strip() and "".join(h.split()) not in "".join(res["stderr"].split()):
                    violations.append({"kind": "diagnostic-not-printed", "locus": d["cls"], "detail": f"header {h!r} missing from CLI output"})
                    break
            # a failing post-hook is an error-level diagnostic AFTER the client was written; every other error-level
            # diagnostic is a rejection (document, or existing directory) and must leave the file system untouched
            hook_errors = [d for d in diags if d["level"] == "ERROR" and (d["header"] or "").endswith(" failed")]
            rejected = has_error and len(hook_errors) < sum(1 for d in diags if d["level"] == "ERROR")
            if hook_errors and not rejected:
                outcome = "hook-failed"
            if rejected:
                wrote = seam.mutating_ok()
                if wrote or before != after:
                    changed = sorted(set(after) ^ set(before))[:5]
                    violations.append({
                        "kind": "rejected-but-wrote",
                        "locus": (wrote[0]["op"] if wrote else "snapshot"),
                        "detail": f"error-level diagnostic {diags[0]['header']!r} yet file system changed: ops={[(w['op'], w['path']) for w in wrote[:5]]} diff={changed}",
                    })
    log.append(f"exit {res['exit_code']} exc={res['exception']} outcome={outcome} steps={budget.count // 1000}k")
    applied = spec.get("applied") or []
    fcounts: dict[str, int] = {}
    states = []
    for f in applied:
        kind = fault_kind(f)
        fcounts[kind] = fcounts.get(kind, 0) + 1
        pc = faults.pointer_class(tuple(f["ptr"])) if "ptr" in f else f.get("what", f.get("name", f.get("kind", "")))
        states.append(f"{kind}|{pc}|{outcome}")
    if not applied:
        states.append(f"fault-free||{outcome}")
    probes = {
        f"outcome:{outcome}": 1,
        f"channel:{ch['kind']}": 1,
        f"mode:{spec.get('mode')}": 1,
        "multi-fault": 1 if len(applied) > 1 else 0,
        "url-without-content-type": 1 if ch["kind"] == "url" and ch.get("content_type") is None else 0,
        "fail-on-warning-with-warnings": 1 if spec["fail_on_warning"] and outcome == "warnings" else 0,
        "existing-output+overwrite+rejected": 1 if spec.get("precreate") == "with-overwrite" and spec["output"] == "explicit" and outcome == "rejected" else 0,
        "existing-output-without-overwrite": 1 if spec.get("precreate") == "without-overwrite" and spec["output"] == "explicit" else 0,
        "post-hooks-configured": 1 if spec.get("post_hooks") else 0,
        "yaml-native-scalars": 1 if spec.get("yaml_native") is not None and spec["ser"].startswith("yaml") else 0,
    }
    return {
        "violations": violations,
        "spec": spec,
        "faults": fcounts,
        "probes": probes,
        "states": states,
        "nontrivial_keys": states if applied else [],
        # (diagnostics may quote the document path: the per-run sandbox name - it holds a process id - stays out of the event log)
        "fingerprint": rng.fingerprint([ln.replace(sandbox, "<sandbox>") for ln in log]),
        "sim_time": 0.0,
        "sample": {"mode": spec.get("mode"), "applied": applied[:3], "channel": ch, "meta": spec["meta"], "outcome": outcome, "exit": res["exit_code"], "n_diag": None if diags is None else len(diags), "payload_bytes": len(data), "steps": budget.count},
        "log": log if args.get("want_log") else None,
    }


def budget_locus(b) -> str:
    return getattr(b, "locus", "") or ""


def fault_kind(f: dict) -> str:
    t = f.get("t")
    if t == "tree":
        j = str(f.get("junk", ""))
        if f["op"] in ("replace", "merge", "rename-key"):
            return f"tree-{f['op']}:{j}"
        if f["op"] == "cycle":
            return f"tree-cycle:{f['what']}"
        return f"tree-{f['op']}"
    if t == "bytes":
        return f"bytes-{f['op']}"
    if t == "corpus":
        return "corpus"
    if t == "net":
        return f"net-{f['kind']}"
    return str(t)


# ---------------------------------------------------------------------- thorough: enumeration
def seed_jobs(tier: str, seed: int, plan_: dict):
    if tier != "thorough":
        i = 0
        while True:
            s = rng.derive(seed, PROP, i)
            yield {"fn": FN_SEED, "args": {"seed": s, "tier": tier, "index": i}, "h": s % 4, "timeout": 120}
            i += 1
    else:
        # alternate: a block of seeded samples, then the complete single-fault space of one seed document
        d = 0
        i = 0
        while True:
            for _ in range(2000):
                s = rng.derive(seed, PROP, i)
                yield {"fn": FN_SEED, "args": {"seed": s, "tier": tier, "index": i}, "h": s % 4, "timeout": 120}
                i += 1
            doc_seed = rng.derive(seed, PROP, "enumdoc", d)
            d += 1
            doc, _ = base_document(doc_seed)
            n = len(faults.single_fault_space(doc))
            ENUM_DOCS.append({"doc_seed": doc_seed, "single_faults": n})
            for j in range(n):
                s = rng.derive(doc_seed, "enum", j)
                yield {"fn": FN_SEED, "args": {"seed": s, "tier": tier, "enum_index": j, "doc_seed": doc_seed}, "h": s % 4, "timeout": 120}


ENUM_DOCS: list[dict] = []


# ---------------------------------------------------------------------- shrinking
def pre_minimise(spec: dict, cls: str) -> dict:
    """While shrinking a hang, candidates run under a reduced step limit (still >> any terminating run of
    a smaller document); the driver re-confirms the result under the full limit."""
    if cls.startswith("hang-steps"):
        return dict(spec, step_limit=1_500_000)
    return spec


def post_minimise(spec: dict, cls: str) -> dict:
    if cls.startswith("hang-steps"):
        return dict(spec, step_limit=STEP_LIMIT)
    return spec


def spec_size(spec: dict) -> dict:
    return {"doc_nodes": docgen.count_nodes(spec["doc"]) if spec.get("doc") is not None else None, "payload_bytes": len(payload_of(spec)), "faults": len(spec.get("applied") or [])}


def shrink_candidates(spec: dict) -> list[dict]:
    out: list[dict] = []

    def variant(**kw: Any) -> dict:
        s = copy.deepcopy(spec)
        s.update(kw)
        return s

    # simplify the world first
    if spec["channel"]["kind"] == "url" and not spec["channel"].get("net_fault"):
        out.append(variant(channel={"kind": "file", "ext": ".json" if spec["ser"].startswith("json") else ".yaml"}))
    if spec["fail_on_warning"]:
        out.append(variant(fail_on_warning=False))
    if spec["channel"].get("state"):
        out.append(variant(channel=dict(spec["channel"], state=None)))
    if spec["output"] != "explicit":
        out.append(variant(output="explicit"))
    if spec.get("precreate"):
        out.append(variant(precreate=None))
    if spec.get("file_encoding"):
        out.append(variant(file_encoding=None))
    if spec.get("post_hooks"):
        out.append(variant(post_hooks=[]))
        if len(spec["post_hooks"]) > 1:
            out.append(variant(post_hooks=spec["post_hooks"][:1]))
            out.append(variant(post_hooks=spec["post_hooks"][1:]))
    if spec.get("yaml_native") is not None:
        out.append(variant(yaml_native=None))
    if spec["meta"] != "none":
        out.append(variant(meta="none"))
    if any((spec.get("config") or {}).values()):
        out.append(variant(config={}))
    if spec.get("doc") is not None and not spec.get("byte_faults"):
        if spec["ser"] != "json":
            ch = spec["channel"]
            if ch["kind"] == "file":
                out.append(variant(ser="json", channel={"kind": "file", "ext": ".json"}))
        for d in driver.tree_candidates(spec["doc"], limit=300):
            out.append(variant(doc=d))
        return out
    # byte form: materialise and delete spans
    data = payload_of(spec)
    base = variant(doc=None, byte_faults=[], payload_b64=base64.b64encode(data).decode())
    if spec.get("byte_faults") or spec.get("doc") is not None:
        out.append(base)
    n = len(data)
    size = max(1, n // 2)
    while size >= 1 and len(out) < 300:
        for off in range(0, n, size):
            cand = data[:off] + data[off + size :]
            out.append(variant(doc=None, byte_faults=[], payload_b64=base64.b64encode(cand).decode()))
            if len(out) >= 300:
                break
        if size == 1:
            break
        size //= 2
    return out
