#!/venv/bin/python
"""Determinism self-test: N seeds per property, each run twice in separate forked children, at two
worker counts, with the harness itself started under PYTHONHASHSEED=0 and =random (the ./check
wrapper re-execs under 0; here pools are built directly so the coordinator's own hash seed varies).
The event-log fingerprints of the two executions of a seed must be identical.

usage: selftest/determinism.py [--props C03,C06] [--n 300] [--workers 1,16]
"""
import argparse, importlib, os, subprocess, sys, time

VERIF = os.path.dirname(os.path.dirname(os.path.abspath(__file__)))
sys.path.insert(0, VERIF)
from sim import pool, rng  # noqa: E402


def fingerprints(prop: str, n: int, workers: int, tier: str = "quick") -> dict[int, str]:
    c = importlib.import_module("checks." + prop.lower())
    out: dict[int, str] = {}
    errs: list[str] = []
    if prop == "C12":
        return c12_fingerprints(n, workers)
    jobs = []
    for i in range(n):
        s = rng.derive(12345, prop, i)
        jobs.append({"fn": c.FN_SEED, "args": {"seed": s, "tier": tier, "index": i}, "h": s % 4, "timeout": 300, "_i": i})
    with pool.Pool(pool.default_hashseeds(workers)) as p:
        def cb(job, env):
            if env.get("status") != "ok":
                errs.append(f"{job['_i']}: {env.get('status')} {env.get('error')}")
                return
            out[job["_i"]] = env["result"].get("fingerprint") or "none"
        p.run(jobs, cb)
    if errs:
        print("  job errors:", errs[:3])
    return out


def c12_fingerprints(n: int, workers: int) -> dict[int, str]:
    """For C12 a run is a cell; the fingerprint is the digest of the per-file hashes it returns."""
    import hashlib, json
    from checks import c12
    # a cell is pinned to the interpreter that owns its hash seed, so the pool is the same 16 interpreters whatever
    # `workers` says; what varies between executions is the ORDER in which the cells are dispatched
    hs, envs = c12.pool_config(12345, 0, 16)
    out: dict[int, str] = {}
    jobs = []
    for i in range(n):
        ds = rng.derive(12345, "C12", i)
        doc, _ = c12.make_doc(ds)
        others = [c12.make_doc(rng.derive(ds, "other", k))[0] for k in range(2)]
        cells = c12.build_cells(ds, doc, hs, i % 5 == 0, others, envs)
        cell = cells[i % len(cells)]
        need = {"self": doc, "other0": others[0], "other1": others[1]}
        jobs.append({"fn": c12.FN_SEED, "args": {"cell": cell, "docs": need, "meta": "poetry", "config": {}}, "h": cell["h"], "timeout": 300, "_i": i})
    if workers == 1:
        jobs.reverse()
    with pool.Pool(hs, per_worker_env=envs) as p:
        def cb(job, env):
            if env.get("status") == "ok":
                out[job["_i"]] = hashlib.sha256(json.dumps(env["result"]["files"], sort_keys=True).encode()).hexdigest()
        p.run(jobs, cb)
    return out


def main() -> int:
    ap = argparse.ArgumentParser()
    ap.add_argument("--props", default="C03,C04,C06,C08,C12,C19")
    ap.add_argument("--n", type=int, default=300)
    ap.add_argument("--workers", default="1,16")
    ap.add_argument("--inner", action="store_true")
    a = ap.parse_args()
    if not a.inner:
        # run the whole comparison under two coordinator hash seeds in fresh interpreters and diff their reports
        reports = []
        for hs in ("0", "random"):
            env = dict(os.environ, PYTHONHASHSEED=hs)
            p = subprocess.run([sys.executable, os.path.abspath(__file__), "--inner", "--props", a.props, "--n", str(a.n), "--workers", a.workers],
                               env=env, capture_output=True, text=True, cwd=VERIF)
            sys.stdout.write(f"--- coordinator PYTHONHASHSEED={hs}\n{p.stdout}{p.stderr[-500:]}")
            reports.append({ln.split(" ", 2)[1]: ln.split(" ", 2)[2] for ln in p.stdout.splitlines() if ln.startswith("DIGEST ")})
            if p.returncode != 0:
                print("determinism: FAILED (divergence within one coordinator)")
                return 1
        if reports[0] != reports[1]:
            print("determinism: FAILED (fingerprints depend on the coordinator's hash seed)", reports)
            return 1
        print("determinism: OK")
        return 0
    import hashlib
    rc = 0
    ws = [int(x) for x in a.workers.split(",")]
    for prop in a.props.split(","):
        t0 = time.time()
        runs = [fingerprints(prop, a.n, w) for w in ws] + [fingerprints(prop, a.n, ws[-1])]
        base = runs[0]
        diverged = sorted({i for r in runs[1:] for i in set(base) | set(r) if base.get(i) != r.get(i)})
        digest = hashlib.sha256(repr(sorted(base.items())).encode()).hexdigest()[:16]
        print(f"DIGEST {prop} {digest}")
        print(f"{prop}: {len(base)} seeds x {len(runs)} executions (workers {ws + [ws[-1]]}), diverged={len(diverged)} {diverged[:8]} in {time.time() - t0:.0f}s", flush=True)
        if diverged or len(base) < a.n:
            rc = 1
    return rc


if __name__ == "__main__":
    sys.exit(main())
