#!/venv/bin/python
"""Sensitivity self-test: apply each mutant to a scratch copy of /repo under /dev/shm (removed
afterwards), run the named check's quick tier against it (VERIF_REPO), expect exit 1 with a
VIOLATION line; the unmodified copy must give exit 0.

usage: selftest/sensitivity.py [--only m06a,m19b] [--prop C06] [--budget 40] [--control]
"""
import argparse, json, os, shutil, subprocess, sys, time

VERIF = os.path.dirname(os.path.dirname(os.path.abspath(__file__)))


def scratch_copy(tag: str) -> str:
    dst = f"/dev/shm/verif-mut-{tag}-{os.getpid()}"
    shutil.rmtree(dst, ignore_errors=True)
    os.makedirs(dst)
    shutil.copytree("/repo/openapi_python_client", os.path.join(dst, "openapi_python_client"), ignore=shutil.ignore_patterns("__pycache__"))
    return dst


def apply(dst: str, edits: list[dict]) -> None:
    for e in edits:
        p = os.path.join(dst, e["file"])
        s = open(p).read()
        if e["old"] not in s:
            raise SystemExit(f"mutant edit does not apply: {e['file']}: {e['old'][:60]!r}")
        open(p, "w").write(s.replace(e["old"], e["new"], 1))


def run_check(prop: str, repo: str, budget: int, seed: int) -> tuple[int, str]:
    env = dict(os.environ, VERIF_REPO=repo, VERIF_BUDGET_S=str(budget), VERIF_SEED=str(seed), VERIF_EVIDENCE_DIR="/dev/shm/verif-selftest-evidence")
    p = subprocess.run([os.path.join(VERIF, "check"), prop, "--tier", "quick"], cwd=VERIF, env=env, capture_output=True, text=True, timeout=1800)
    return p.returncode, p.stdout + p.stderr


def main() -> int:
    ap = argparse.ArgumentParser()
    ap.add_argument("--only")
    ap.add_argument("--prop")
    ap.add_argument("--budget", type=int, default=40)
    ap.add_argument("--seed", type=int, default=0)
    ap.add_argument("--control", action="store_true")
    ap.add_argument("--results")
    ap.add_argument("--file", default=os.path.join(VERIF, "selftest", "mutants.json"))
    a = ap.parse_args()
    muts = json.load(open(a.file))["mutants"]
    if a.only:
        muts = [m for m in muts if m["id"] in a.only.split(",")]
    if a.prop:
        muts = [m for m in muts if m["property"] == a.prop]
    results = []
    lines: list[str] = []
    if a.control:
        for prop in sorted({m["property"] for m in muts}):
            dst = scratch_copy("control")
            try:
                rc, out = run_check(prop, dst, a.budget, a.seed)
            finally:
                shutil.rmtree(dst, ignore_errors=True)
            print(f"control {prop}: rc={rc} {'OK' if rc == 0 else 'FALSE-ALARM'}", flush=True)
            results.append(("control-" + prop, rc == 0))
    for m in muts:
        dst = scratch_copy(m["id"])
        t0 = time.time()
        try:
            try:
                apply(dst, m["edits"])
            except SystemExit as e:  # the tree moved on (e.g. a fix: commit rewrote the line): report, keep going
                print(f"{m['id']} ({m['property']}) DOES-NOT-APPLY :: {e}", flush=True)
                results.append((m["id"], False))
                continue
            rc, out = run_check(m["property"], dst, a.budget, a.seed)
        finally:
            shutil.rmtree(dst, ignore_errors=True)
        caught = rc == 1 and "VIOLATION property=" + m["property"] in out
        classes = [ln.strip()[:160] for ln in out.splitlines() if ln.strip().startswith("class=")]
        ln = f"{m['id']} ({m['property']}) {'CAUGHT' if caught else 'MISSED rc=' + str(rc)} in {time.time() - t0:.0f}s :: {m['what']} :: {classes[:2]}"
        lines.append(ln)
        print(ln, flush=True)
        if not caught:
            print(out[-1500:])
        results.append((m["id"], caught))
    bad = [k for k, ok in results if not ok]
    if a.results:
        with open(a.results, "w") as f:
            f.write("# Sensitivity self-test - last full run\n\n`selftest/sensitivity.py --control --results selftest/RESULTS.md` (quick tier, budget %d s, VERIF_SEED=%d).\n\n| id | result |\n|----|--------|\n" % (a.budget, a.seed))
            for k, ok in results:
                f.write(f"| {k} | {'ok' if ok else 'FAILED'} |\n")
            f.write(f"\n{len(results) - len(bad)} ok, {len(bad)} failed {bad}\n\nPer-mutant lines (what each mutant is, the classes that caught it):\n\n```\n" + "\n".join(lines) + "\n```\n")
    print("sensitivity:", len(results) - len(bad), "ok,", len(bad), "failed", bad)
    return 1 if bad else 0


if __name__ == "__main__":
    sys.exit(main())
