#!/bin/sh
# Build step after a fresh restore, offline: nothing to compile.  Verifies the interpreter,
# the repo import, the tmpfs sandbox root, and runs a small determinism smoke.
set -e
cd "$(dirname "$0")"
/venv/bin/python - <<'PY'
import os, sys
sys.path.insert(0, os.environ.get("VERIF_REPO", "/repo"))
import openapi_python_client, httpx, jinja2, typer  # noqa
assert os.access("/dev/shm", os.W_OK), "/dev/shm not writable"
print("setup ok:", openapi_python_client.__file__)
PY
mkdir -p evidence replays
