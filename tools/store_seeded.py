#!/venv/bin/python
"""tools/store_seeded.py <id e.g. C03-1> <src dir> <json meta fields...>: copy patch.diff, demo, notes into /verif/seeded/<id>/ and write meta.json"""
import json, os, shutil, sys
sid, src, meta_json = sys.argv[1], sys.argv[2], sys.argv[3]
dst = os.path.join("/verif/seeded", sid)
os.makedirs(dst, exist_ok=True)
for f in ("patch.diff", "demo.py", "demo.sh", "notes.md"):
    if os.path.exists(os.path.join(src, f)):
        shutil.copy(os.path.join(src, f), os.path.join(dst, f))
meta = json.loads(meta_json)
meta.setdefault("id", sid)
meta.setdefault("property", sid.split("-")[0])
meta.setdefault("origin", "written by an independent sub-agent that was given only the property text and a scratch git worktree of /repo (nothing from /verif)")
json.dump(meta, open(os.path.join(dst, "meta.json"), "w"), indent=1)
print("stored", dst)
