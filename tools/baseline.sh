#!/bin/sh
# Run the repository's pinned baseline (guard off) and compare with BASELINE.json's stable_pass list.
cd /repo && /venv/bin/python -m pytest -ra -q -p no:cacheprovider --timeout=900 --continue-on-collection-errors --junitxml=/tmp/scratch/junit.xml >/tmp/scratch/pytest.log 2>&1
/venv/bin/python - <<'PY'
import json, xml.etree.ElementTree as ET
base = set(json.load(open('/root/.vp/BASELINE.json'))['stable_pass'])
passed = set()
for tc in ET.parse('/tmp/scratch/junit.xml').getroot().iter('testcase'):
    if not any(ch.tag in ('failure', 'error', 'skipped') for ch in tc):
        cls = tc.get('classname'); name = tc.get('name')
        passed.add(f"{cls}::{name}")
def norm(x): return x.replace("::", ".").replace(".", "")
pn = {norm(p) for p in passed}
missing = [b for b in base if norm(b) not in pn]
print("baseline", len(base), "passed now", len(passed), "missing from baseline", len(missing))
for m in missing[:20]: print("  MISSING", m)
PY
