#!/venv/bin/python
"""Survey violation classes of a check without minimising: tools/survey.py C06 60 [seed] [tier]"""
import collections, importlib, json, os, sys, time
sys.path.insert(0, os.path.dirname(os.path.dirname(os.path.abspath(__file__))))
from sim import driver, pool, rng

prop, secs = sys.argv[1], float(sys.argv[2])
seed = int(sys.argv[3]) if len(sys.argv) > 3 else 0
tier = sys.argv[4] if len(sys.argv) > 4 else "quick"
c = importlib.import_module("checks." + prop.lower())
classes = collections.Counter(); example = {}; n = [0]; herr = []
known = driver.load_known(prop)
def cb(job, env):
    n[0] += 1
    if env.get("status") != "ok":
        herr.append((env.get("status"), env.get("error"), (env.get("traceback") or "")[-600:], job.get("args")))
        return
    for v in env["result"].get("violations") or []:
        k = driver.vclass(v)
        if driver.match_known(known, v): k = "KNOWN " + k
        classes[k] += 1
        example.setdefault(k, (v, job["args"]))
plan = c.plan(tier, seed)
with pool.Pool(plan.get("hashseeds") or pool.default_hashseeds(pool.n_workers())) as p:
    d = driver.Driver(c, tier, seed)
    jobs = d._seed_jobs(plan)
    p.run(jobs, cb, deadline=time.monotonic() + secs)
print("runs", n[0], "harness errors", len(herr))
for h in herr[:5]: print("HERR", h)
for k, cnt in classes.most_common():
    v, a = example[k]
    print(f"--- {cnt}x {k}\n    args={a}\n    {v.get('detail','')[:400]}")
