#!/usr/bin/env python3
"""tools/applypkg.py <patch.diff> <dir>: apply only the openapi_python_client/ part of a patch to <dir> (a copy of the
package's parent directory) with patch(1), which tolerates the line offsets that later fix: commits introduced."""
import re, subprocess, sys
src, dst = sys.argv[1], sys.argv[2]
text = open(src, encoding="utf-8", errors="surrogateescape").read()
parts = re.split(r"(?m)^(?=diff --git )", text)
keep = [p for p in parts if p.startswith("diff --git a/openapi_python_client/")]
if not keep:
    sys.exit("no hunk touches openapi_python_client/")
r = subprocess.run(["patch", "-p1", "-s", "-f", "--no-backup-if-mismatch", "-d", dst], input="".join(keep).encode("utf-8", "surrogateescape"))
sys.exit(r.returncode)
