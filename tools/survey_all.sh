#!/bin/sh
# long surveys (classes without minimising) for rare defects / rare false alarms
cd "$(dirname "$0")/.."
S=${1:-5}; T=${2:-600}
for P in C03 C04 C08 C19; do echo "##### $P"; tools/survey.py $P $T $S thorough 2>&1 | grep -v "^WARNING conda" | cut -c1-600 | head -60; done
