#!/bin/sh
# tools/verify_seeded.sh <src dir with patch.diff + demo.py|demo.sh> : confirm in a scratch worktree of /repo that
#  (1) demo passes on the clean tree, (2) patch applies, (3) demo fails with the patch, (4) the pinned suite still has 403 passes.
SRC=$(readlink -f "$1"); WT=/tmp/vs-$$
git -C /repo worktree add -q --detach $WT HEAD || exit 2
cd $WT
DEMO=$SRC/demo.py; RUN="/venv/bin/python $DEMO"; [ -f $SRC/demo.sh ] && { DEMO=$SRC/demo.sh; RUN="sh $DEMO"; }
REPO=$WT PYTHONPATH=$WT timeout 300 $RUN >/tmp/vs-$$.clean.log 2>&1; C=$?
git apply --check $SRC/patch.diff 2>/tmp/vs-$$.apply.log; A=$?
git apply $SRC/patch.diff
REPO=$WT PYTHONPATH=$WT timeout 300 $RUN >/tmp/vs-$$.patched.log 2>&1; P=$?
PYTHONPATH=$WT /venv/bin/python -m pytest -q -p no:cacheprovider --timeout=900 --continue-on-collection-errors >/tmp/vs-$$.suite.log 2>&1
S=$(tail -1 /tmp/vs-$$.suite.log)
echo "demo_clean_rc=$C apply_check_rc=$A demo_patched_rc=$P suite: $S"
tail -3 /tmp/vs-$$.patched.log | cut -c1-300
cd /; git -C /repo worktree remove --force $WT; rm -f /tmp/vs-$$.*
