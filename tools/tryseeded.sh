#!/bin/sh
# tools/tryseeded.sh <patch.diff> <PROP> [budget_s] [seed]: run a check's quick tier against a scratch copy of /repo with the patch applied
set -e
PATCH=$(readlink -f "$1"); PROP=$2; BUDGET=${3:-30}; SEED=${4:-0}
D=/dev/shm/seedtest-$$
rm -rf $D; mkdir -p $D; cp -r /repo/openapi_python_client $D/; find $D -name __pycache__ -prune -exec rm -rf {} + 2>/dev/null || true
python3 /verif/tools/applypkg.py "$PATCH" $D
cd /verif
set +e
VERIF_REPO=$D VERIF_BUDGET_S=$BUDGET VERIF_SEED=$SEED VERIF_EVIDENCE_DIR=/dev/shm/verif-selftest-evidence VERIF_REPLAY_DIR=/dev/shm/verif-selftest-replays ./check $PROP --tier quick 2>&1 | grep -v "^KNOWN-FINDING" | cut -c1-600 | tail -12
RC=$?
rm -rf $D
