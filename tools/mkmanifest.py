import json, sys
BUILT = sys.argv[1].split(",") if len(sys.argv) > 1 and sys.argv[1] else []
NA = {
 "C01": "pure function document -> files (compile/import of the output); no schedule, clock, fault or history can change the verdict; deterministic simulation does not apply (DESIGN 5)",
 "C02": "from_dict/to_dict are synchronous pure functions of (class, JSON value); nothing to simulate (DESIGN 5)",
 "C05": "static property of the emitted text for one document; pure function of the input (DESIGN 5)",
 "C07": "census of outputs against inputs within one run; no fault, schedule or history dimension (DESIGN 5)",
 "C09": "function over strings and sets of strings (DESIGN 5)",
 "C10": "per-kind template logic, pure; its wire clause (unset is not transmitted) is item 2 of the C03 oracle (DESIGN 5)",
 "C11": "static analysis (mypy) of the output; pure function of the document (DESIGN 5)",
 "C13": "pure per (kind, default value, route) (DESIGN 5)",
 "C14": "pure per enum value list (DESIGN 5)",
 "C15": "pure; 'regardless of member order' is an input permutation, not a schedule (DESIGN 5)",
 "C16": "differential over the configuration space with no time, fault or history in it (DESIGN 5)",
 "C17": "notation rewrites compared by bytes; the file-vs-URL loader seam is driven under C06, equality across notations is not a fault/schedule question (DESIGN 5)",
 "C18": "renaming differential over inputs; pure (DESIGN 5)",
 "C20": "rewriting differential (reference vs inline); its containment clause is covered as fault kinds of C06/C08 under those ids (DESIGN 5)",
}
CHECKS = {
 "C03": dict(level="exploration", design="3.1", technique="deterministic simulation: generated client vs simulated API server over the httpx transport seam, virtual-time asyncio loop, seeded baton scheduler for caller threads (line-level pre-emption), seeded schedules and transport faults, wire reference model",
   text="Seeded exploration of sessions of sync calls, concurrently scheduled asyncio calls and blocking calls from 2-4 caller threads interleaved statement by statement by a seeded scheduler, all on one shared object of REAL generated clients against a simulated API server; every request is checked against a wire reference model computed from the document and the arguments (exactly-once per call, location/name/slot of every argument, body per announced Content-Type, sync==async twins - half of them passing the first call's argument objects again -, security requirement incl. the document-level default, auth header, per-call isolation under interleaving). One of the four process configurations runs the interpreter with -O. Sampling, not proof.",
   note="Trusted: the wire reference model and instance generator in /verif/sim; httpx's own encoding of URLs/cookies/multipart is real code; transport, server, clock and os.urandom are stubs. Workload bounds in DESIGN 2.4/A.2."),
 "C04": dict(level="exploration", design="3.2", technique="deterministic simulation: simulated API server answers (documented/undocumented status, media types, latency, transport faults) under virtual time; reference decoder; sync==async",
   text="Seeded exploration of server behaviours per call: each documented (status, media type), undocumented statuses inside and outside http.HTTPStatus, both raise flags, detailed/plain and sync/asyncio variants, transport faults; zero-length bodies, falsy values; decoded result compared with a reference decoder built from schema + JSON value; one of the four process configurations runs python -O. Sampling, not proof.",
   note="Trusted: reference decoder (/verif/sim/instances.py), normal forms of DESIGN A.3; only schema-valid bodies and the media types the property lists are sent."),
 "C06": dict(level="fault_enumeration", design="3.3", technique="deterministic simulation with fault injection on the document channel (tree/byte/network faults), FS op log, deterministic step budget; thorough tier enumerates the single-fault space of seed documents",
   text="Fault injection against the document channel of the REAL CLI run in-process: seeded multi-fault sampling (tree faults incl. key renaming and reference cycles, byte faults, non-document corpus, network faults, native YAML scalars, parameters described with content, failing post hooks with non-UTF-8 output) plus (thorough) complete enumeration of the single-tree-fault space of seed documents, over worlds that also vary the state of the output location, --overwrite, real post-hook subprocesses and the generator configuration; oracles: terminates within a deterministic step budget (wall-clock backstop for loops outside bytecode), no unhandled exception, exit status <=> diagnostics, diagnostics printed, a rejection writes/removes nothing (FS op log + snapshot), no write outside the sandbox.",
   note="Trusted: CliRunner faithfully reports exceptions/exit codes; the document server behind httpx.get is a stub that only raises what httpx.get can raise; bounds of DESIGN 2.4; nesting up to 1100 schema levels / 5000 value levels."),
 "C08": dict(level="fault_enumeration", design="3.4", technique="deterministic simulation with fault injection: bad pieces inserted at enumerated positions of a clean document, fault-free twin, dependency-cone reference model, byte comparison of trees + import of survivors",
   text="For seeded clean documents, bad pieces from a library are inserted at enumerated applicable positions (thorough: every (piece, position) pair, among the positions name clashes between a schema's inline children and other components, a bad property after a clashing sibling, a new bad namesake operation); the faulted output is compared module by module with the fault-free twin outside the dependency cone computed from the document alone; every removed/changed item must be named by a diagnostic, every surviving module must import, and (a fifth of the runs) regenerating the faulted document with --overwrite over the clean tree must give the same tree as generating it afresh.",
   note="Trusted: the cone reference model and name-prefix provenance in /verif/checks/c08.py; documents come from docgen with prefix-free top-level names."),
 "C12": dict(level="exploration", design="3.5", technique="deterministic simulation of process-level nondeterminism: one interpreter per PYTHONHASHSEED, environment skew, warm-process histories, post-hook seam; byte comparison of trees; map-order permutations",
   text="Each seeded document is generated in a matrix of process configurations (4-8 hash seeds out of a pool of 16 interpreters, TZ/locale/cwd/umask skew, cold vs warm-process history incl. histories of up to nine generations and histories under another configuration, python -O, JSON / YAML / native-YAML-scalar serialisation, generation over an output directory with its own history, hooks off / ruff / ruff absent) and all trees are compared byte for byte; for diagnostic-free documents, permutations of components.schemas and paths must give identical module sets and contents. Hash seeds are sampled, not enumerated.",
   note="Trusted: tree snapshot/digest code; ruff is a real subprocess observed by snapshot only."),
 "C19": dict(level="fault_enumeration", design="3.6", technique="deterministic simulation: stateful histories of generate commands, user edits, crashes at enumerated FS-operation indices, torn writes and disk errors against one output location on real tmpfs under an interposed FS layer; refinement against 'fresh generation + user files'",
   text="Seeded histories (GEN / USER / CRASHGEN / DISKERR / RACEGEN: two concurrent commands interleaved at file-system calls by a seeded scheduler) of ONE process - each command starts in the working directory the previous one left - against one output location that may exist before the first generation (empty, hidden entries only, user files) or lie below parents that do not exist, with hostile document names, degenerate successor documents, custom template directories, real post-hook subprocesses (the spawn is an operation of the FS seam) and one process id per generate command; invariants after every op and at every FS operation: confinement (op log with blocking of escapes + sentinel snapshot), no-overwrite leaves the tree untouched with an error, overwrite converges to fresh(doc) + user files also after crashes at every enumerated FS-op index (thorough: all indices, both crash flavours).",
   note="Trusted: the FS interposition layer sees every mutating call the generator makes (cross-checked by snapshots); a simulated crash unwinds the Python stack, torn writes are injected explicitly; no power-loss / fsync model."),
}
m = {
 "version": 1,
 "setup_cmd": "timeout 600 ./setup.sh",
 "hooks": {"guard": "OPENAPI_PYTHON_CLIENT_VERIF", "enable": "no source hooks are needed: every seam (httpx.get, httpx transports, io.open/os.*, openapi_python_client.Environment/generate, sys.monitoring, PYTHONHASHSEED via exec) is reachable from outside; the guard name is reserved and unused",
           "baseline_off_cmd": "cd /repo && /venv/bin/python -m pytest -ra -q -p no:cacheprovider --timeout=900 --continue-on-collection-errors",
           "source_commits": [], "add_only": True},
 "engines": [{"name": "GenWorld", "path": "/verif/sim", "serves_properties": sorted(BUILT), "kind_free_text": "deterministic simulator: seeded docgen workload, fork-per-run worker interpreters per PYTHONHASHSEED, FS interposition with crash/torn/errno faults, document-server and API-server transports, virtual-time asyncio loop, ddmin + JSON replay files"}],
 "checks": [],
 "notes": "Technique family: deterministic simulation with fault injection. See DESIGN.md. Exit codes: 0 held, 1 violation (VIOLATION line), 2 harness failure.",
 "not_applicable": [],
}
for pid in sorted(CHECKS):
    c = CHECKS[pid]
    if pid in BUILT:
        m["checks"].append({
            "property_id": pid,
            "quick_cmd": f"timeout 900 ./check {pid} --tier quick",
            "thorough_cmd": f"timeout 3000 ./check {pid} --tier thorough",
            "evidence_file": f"/verif/evidence/{pid}.json",
            "replay_cmd_template": f"./check {pid} --replay {{path}}",
            "engine": "GenWorld",
            "level_claimed": {"category": c["level"], "text": c["text"], "design_ref": f"DESIGN.md §{c['design']}"},
            "level_note": c["note"],
            "technique": c["technique"],
        })
    else:
        m["not_applicable"].append({"property_id": pid, "reason": "claimed in DESIGN.md but its check is still under construction in this commit; not yet claimed"})
for pid in sorted(NA):
    m["not_applicable"].append({"property_id": pid, "reason": NA[pid]})
json.dump(m, open("/verif/MANIFEST.json", "w"), indent=1)
import jsonschema
jsonschema.validate(m, json.load(open("/root/.vp/MANIFEST.schema.json")))
print("manifest ok; checks:", [c["property_id"] for c in m["checks"]])
