#!/venv/bin/python
import json,sys
for path in sys.argv[1:]:
    r=json.load(open(path))
    print("=====", path, r["expect"], r.get("minimised_from"), "->", r.get("minimised_to"), "steps", r.get("shrink_steps"))
    s=r["spec"]
    for k,v in s.items():
        if k in ("docs","doc"): continue
        print("  ", k, "=", json.dumps(v)[:600])
    if "docs" in s:
        for k,d in s["docs"].items(): print("   doc", k, json.dumps(d)[:1800])
    elif s.get("doc") is not None: print("   doc", json.dumps(s["doc"])[:1800])
    print("   detail:", r["detail"][:500])
