#!/venv/bin/python
"""Soak: run checks' quick tier over many VERIF_SEED values; report any rc != 0 (false alarms or new findings).
usage: tools/soak.py [--props C03,C04] [--seeds 1-20] [--budget 40] [--tier quick]"""
import argparse, os, subprocess, sys, time
VERIF = os.path.dirname(os.path.dirname(os.path.abspath(__file__)))
ap = argparse.ArgumentParser()
ap.add_argument("--props", default="C03,C04,C06,C08,C12,C19")
ap.add_argument("--seeds", default="1-12")
ap.add_argument("--budget", type=int, default=40)
ap.add_argument("--tier", default="quick")
a = ap.parse_args()
lo, hi = (int(x) for x in a.seeds.split("-"))
bad = 0
for seed in range(lo, hi + 1):
    for prop in a.props.split(","):
        env = dict(os.environ, VERIF_SEED=str(seed), VERIF_BUDGET_S=str(a.budget), VERIF_EVIDENCE_DIR="/dev/shm/verif-soak-evidence", VERIF_REPLAY_DIR=os.path.join(VERIF, "soak_replays"))
        t0 = time.time()
        p = subprocess.run([os.path.join(VERIF, "check"), prop, "--tier", a.tier], cwd=VERIF, env=env, capture_output=True, text=True)
        last = p.stdout.strip().splitlines()[-1] if p.stdout.strip() else ""
        print(f"seed={seed} {prop} rc={p.returncode} {time.time() - t0:.0f}s {last[:160]}", flush=True)
        if p.returncode != 0:
            bad += 1
            for ln in p.stdout.splitlines():
                if ln.startswith(("VIOLATION", "  class=", "HARNESS-ERROR")):
                    print("    " + ln[:700], flush=True)
print("soak done; non-zero exits:", bad)
sys.exit(1 if bad else 0)
