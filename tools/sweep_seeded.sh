#!/bin/sh
# tools/sweep_seeded.sh [seed] [budget_s] [id-glob]: run every seeded/<id>/patch.diff against its property's quick tier
# (scratch copy of the package under /dev/shm, VERIF_REPO) and print CAUGHT/MISSED with the time it took.
SEED=${1:-1}; BUDGET=${2:-60}; GLOB=${3:-*}
cd "$(dirname "$0")/.."
for d in seeded/$GLOB/; do
  id=$(basename $d); prop=${id%%-*}
  [ -f $d/patch.diff ] || continue
  # a change may be caught by another property's check than the one it was written for (meta.json caught_by)
  cprop=$(/venv/bin/python -c "import json,re,sys; m=json.load(open('$d/meta.json')); c=m.get('caught_by',''); r=re.match(r'\s*(C\d\d)', c); print(r.group(1) if r else '$prop')")
  D=/dev/shm/sweep-$$; rm -rf $D; mkdir -p $D; cp -r /repo/openapi_python_client $D/
  find $D -name __pycache__ -prune -exec rm -rf {} + 2>/dev/null
  if ! python3 /verif/tools/applypkg.py /verif/$d/patch.diff $D >/dev/null 2>&1; then echo "$id $cprop PATCH-DOES-NOT-APPLY"; rm -rf $D; continue; fi
  t0=$(date +%s)
  out=$(VERIF_REPO=$D VERIF_BUDGET_S=$BUDGET VERIF_SEED=$SEED VERIF_EVIDENCE_DIR=/dev/shm/verif-sweep-evidence VERIF_REPLAY_DIR=/dev/shm/verif-sweep-replays timeout 900 ./check $cprop --tier quick 2>&1)
  rc=$?
  t1=$(date +%s)
  cls=$(echo "$out" | grep -m1 "^  class=" | cut -c1-160)
  if [ $rc -eq 1 ]; then echo "$id $cprop CAUGHT $((t1-t0))s $cls"; else echo "$id $cprop MISSED rc=$rc $((t1-t0))s"; fi
  rm -rf $D
done
rm -rf /dev/shm/verif-sweep-evidence /dev/shm/verif-sweep-replays
