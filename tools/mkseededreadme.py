#!/usr/bin/env python3
"""tools/mkseededreadme.py: regenerate seeded/README.md from the meta.json files."""
import glob, json, os
V = os.path.dirname(os.path.dirname(os.path.abspath(__file__)))
rows = []
for d in sorted(glob.glob(os.path.join(V, "seeded", "C*-*")), key=lambda s: (os.path.basename(s).split("-")[0], int(os.path.basename(s).split("-")[1]))):
    m = json.load(open(os.path.join(d, "meta.json")))
    rows.append(m)
esc = lambda s: str(s).replace("|", "\\|").replace("\n", " ")
caught = sum(1 for m in rows if str(m.get("first_attempt", "")).startswith("CAUGHT"))
out = ["# Seeded breaking changes", "",
       "Each directory holds an independently written change to openapi-python-client that breaks one property while compiling and passing the pinned suite (`patch.diff`), a demonstration that fails with the change and passes without it (`demo.py`), the author's notes (`notes.md`) and `meta.json` (what it needs in order to manifest, what was run, which check class catches it, and whether the checks had to be strengthened). Ids `-1..-3` are round 1, `-4..-6` round 2, `-7..-9` round 3, `-10..-12` round 4, `-13..-14` round 5, `-15..-16` round 6, `-17` round 7 (later authors were told the earlier mechanisms and asked for different ones). None of these changes is ever committed to /repo; `tools/tryseeded.sh <patch> <PROP> <budget> <seed>` runs a check against a scratch copy with the change applied, `tools/sweep_seeded.sh` does so for all of them. Two old patches (C03-3, C06-2) no longer apply to the current tree because later `fix:` commits rewrote the lines they touch.",
       "", "| id | breaks | needs | first attempt | caught by |", "|----|--------|-------|---------------|-----------|"]
for m in rows:
    out.append(f"| {m['id']} | {esc(m.get('breaks'))} | {esc(m.get('needs'))} | {esc(m.get('first_attempt'))} | {esc(m.get('caught_by'))} |")
out += ["", f"{len(rows)} changes in seven rounds; {caught} were caught by the checks as they stood when the change arrived, {len(rows) - caught} were missed at first and led to the strengthening recorded in each meta.json. Nearly every miss was a WORKLOAD dimension that did not exist yet (the trigger the change needs was never generated), not an oracle that looked away. All but one are caught now (C12-15, an address-reuse dependence, is only ever seen as a non-reproducing difference; C06-7 by C08, whose oracle owns that clause; C08-11 by C08 and C19); the unchanged tree still passes every check.", ""]
open(os.path.join(V, "seeded", "README.md"), "w").write("\n".join(out))
print(len(rows), caught)
